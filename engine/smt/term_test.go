package smt

import (
	"math/rand"
	"testing"
)

// The rewrites must be semantics-preserving: compare against z3 on random expressions.
func TestRewritesAgainstSolver(t *testing.T) {
	c := NewCtx()
	s, err := NewSolver("z3", c, 30)
	if err != nil {
		t.Skip("no z3")
	}
	defer s.Close()
	x := c.Var("x", BVSort(16))
	y := c.Var("y", BVSort(16))
	r := rand.New(rand.NewSource(1))
	raw := func(op Op, a, b *Term) *Term { return c.mk(&Term{Op: op, Sort: a.Sort, Args: []*Term{a, b}}) }
	for i := 0; i < 300; i++ {
		k := uint64(r.Intn(20))
		consts := []*Term{c.BV(16, k), c.BV(16, 1<<(k%16)), c.BV(16, (1<<(k%16))-1), c.BV(16, ((1<<(k%7))-1)<<(k%11)), c.BV(16, r.Uint64())}
		kc := consts[r.Intn(len(consts))]
		ops := []Op{OBVAnd, OBVOr, OBVXor, OBVAdd, OBVSub, OBVMul, OBVUDiv, OBVURem, OBVShl, OBVLshr, OBVAshr}
		op := ops[r.Intn(len(ops))]
		arg := x
		if r.Intn(3) == 0 {
			arg = c.BVAdd(x, y)
		}
		var simp, plain *Term
		if r.Intn(2) == 0 {
			simp, plain = c.bin(op, arg, kc), raw(op, arg, kc)
		} else {
			simp, plain = c.bin(op, kc, arg), raw(op, kc, arg)
		}
		ne := c.mk(&Term{Op: ONot, Sort: BoolSort, Args: []*Term{c.mk(&Term{Op: OEq, Sort: BoolSort, Args: []*Term{simp, plain}})}})
		if simp == plain {
			continue
		}
		res, _ := s.Check([]*Term{ne}, nil)
		if res != Unsat {
			t.Fatalf("rewrite of op %d with const %v changed semantics (%v)", op, kc.Val, res)
		}
		// comparisons built on top
		for _, cmp := range []Op{OBVUlt, OBVSlt, OBVUle, OBVSle} {
			a := c.cmp(cmp, simp, c.BV(16, k))
			b := c.mk(&Term{Op: cmp, Sort: BoolSort, Args: []*Term{plain, c.BV(16, k)}})
			e := c.mk(&Term{Op: OEq, Sort: BoolSort, Args: []*Term{a, b}})
			res, _ := s.Check([]*Term{c.mk(&Term{Op: ONot, Sort: BoolSort, Args: []*Term{e}})}, nil)
			if res != Unsat {
				t.Fatalf("comparison rewrite changed semantics op %d cmp %d const %v", op, cmp, kc.Val)
			}
			a2 := c.Eq(simp, c.BV(16, k))
			b2 := c.mk(&Term{Op: OEq, Sort: BoolSort, Args: []*Term{plain, c.BV(16, k)}})
			e2 := c.mk(&Term{Op: OEq, Sort: BoolSort, Args: []*Term{a2, b2}})
			res, _ = s.Check([]*Term{c.mk(&Term{Op: ONot, Sort: BoolSort, Args: []*Term{e2}})}, nil)
			if res != Unsat {
				t.Fatalf("equality rewrite changed semantics op %d const %v", op, kc.Val)
			}
		}
	}
}

func TestXorCancel(t *testing.T) {
	c := NewCtx()
	x, y, z := c.Var("x", BVSort(8)), c.Var("y", BVSort(8)), c.Var("z", BVSort(8))
	if c.Eq(c.BVXor(x, c.BV(8, 1)), c.BVXor(x, c.BV(8, 2))) != c.False {
		t.Fatal("x^1 = x^2 should fold to false")
	}
	if c.Eq(c.BVXor(x, c.BV(8, 3)), x) != c.False {
		t.Fatal("x^3 = x should fold to false")
	}
	if c.Eq(c.BVXor(x, y), c.BVXor(z, x)) != c.Eq(y, z) {
		t.Fatal("x^y = z^x should be y = z")
	}
}
