// Package smt is a small hash-consed term DAG over bit-vectors, booleans, arrays and
// uninterpreted functions with eager simplification, printed to SMT-LIB2.
package smt

import (
	"fmt"
	"math/big"
	"strings"
)

type Op uint8

const (
	OConst Op = iota
	OVar
	ONot
	OAnd
	OOr
	OIte
	OEq
	OBVNot
	OBVNeg
	OBVAnd
	OBVOr
	OBVXor
	OBVAdd
	OBVSub
	OBVMul
	OBVUDiv
	OBVURem
	OBVSDiv
	OBVSRem
	OBVShl
	OBVLshr
	OBVAshr
	OBVUlt
	OBVUle
	OBVSlt
	OBVSle
	OConcat
	OExtract
	OZExt
	OSExt
	OSelect
	OStore
	OApp
)

var opNames = map[Op]string{
	ONot: "not", OAnd: "and", OOr: "or", OIte: "ite", OEq: "=",
	OBVNot: "bvnot", OBVNeg: "bvneg", OBVAnd: "bvand", OBVOr: "bvor", OBVXor: "bvxor",
	OBVAdd: "bvadd", OBVSub: "bvsub", OBVMul: "bvmul", OBVUDiv: "bvudiv", OBVURem: "bvurem",
	OBVSDiv: "bvsdiv", OBVSRem: "bvsrem", OBVShl: "bvshl", OBVLshr: "bvlshr", OBVAshr: "bvashr",
	OBVUlt: "bvult", OBVUle: "bvule", OBVSlt: "bvslt", OBVSle: "bvsle", OConcat: "concat",
	OSelect: "select", OStore: "store",
}

// Sort: W>0 && !Arr: bit-vector of width W. W==0 && !Arr: Bool. Arr: array IdxW -> W.
type Sort struct {
	W    int
	Arr  bool
	IdxW int
}

func BVSort(w int) Sort { return Sort{W: w} }

var BoolSort = Sort{}

func ArrSort(idxW, elW int) Sort { return Sort{W: elW, Arr: true, IdxW: idxW} }

func (s Sort) IsBool() bool { return !s.Arr && s.W == 0 }
func (s Sort) IsBV() bool   { return !s.Arr && s.W > 0 }
func (s Sort) String() string {
	if s.Arr {
		return fmt.Sprintf("(Array (_ BitVec %d) (_ BitVec %d))", s.IdxW, s.W)
	}
	if s.W == 0 {
		return "Bool"
	}
	return fmt.Sprintf("(_ BitVec %d)", s.W)
}

type Term struct {
	ID   int
	Op   Op
	Sort Sort
	Args []*Term
	Val  *big.Int // OConst
	Name string   // OVar, OApp
	P1   int      // extract hi / ext amount
	P2   int      // extract lo
}

type UFDecl struct {
	Name string
	Args []Sort
	Ret  Sort
}

type Ctx struct {
	table map[string]*Term
	next  int
	Vars  []*Term
	UFs   map[string]*UFDecl
	UFOrd []string
	True  *Term
	False *Term
	fresh map[string]int
}

func NewCtx() *Ctx {
	c := &Ctx{table: map[string]*Term{}, UFs: map[string]*UFDecl{}, fresh: map[string]int{}}
	c.True = c.mk(&Term{Op: OConst, Sort: BoolSort, Val: big.NewInt(1)})
	c.False = c.mk(&Term{Op: OConst, Sort: BoolSort, Val: big.NewInt(0)})
	return c
}

func (c *Ctx) NumTerms() int { return c.next }

func (c *Ctx) key(t *Term) string {
	var sb strings.Builder
	sb.Grow(32)
	fmt.Fprintf(&sb, "%d|%d.%v.%d|", t.Op, t.Sort.W, t.Sort.Arr, t.Sort.IdxW)
	switch t.Op {
	case OConst:
		sb.WriteString(t.Val.Text(16))
	case OVar:
		sb.WriteString(t.Name)
	case OApp:
		sb.WriteString(t.Name)
		sb.WriteByte('|')
	case OExtract, OZExt, OSExt:
		fmt.Fprintf(&sb, "%d,%d|", t.P1, t.P2)
	}
	for _, a := range t.Args {
		fmt.Fprintf(&sb, "%d,", a.ID)
	}
	return sb.String()
}

func (c *Ctx) mk(t *Term) *Term {
	k := c.key(t)
	if e, ok := c.table[k]; ok {
		return e
	}
	t.ID = c.next
	c.next++
	c.table[k] = t
	if t.Op == OVar {
		c.Vars = append(c.Vars, t)
	}
	return t
}

func mask(w int) *big.Int {
	m := new(big.Int).Lsh(big.NewInt(1), uint(w))
	return m.Sub(m, big.NewInt(1))
}

func norm(v *big.Int, w int) *big.Int {
	r := new(big.Int).And(v, mask(w))
	return r
}

func signed(v *big.Int, w int) *big.Int {
	if v.Bit(w-1) == 1 {
		return new(big.Int).Sub(v, new(big.Int).Lsh(big.NewInt(1), uint(w)))
	}
	return new(big.Int).Set(v)
}

func (c *Ctx) BV(w int, v uint64) *Term {
	return c.BVBig(w, new(big.Int).SetUint64(v))
}

func (c *Ctx) BVInt(w int, v int64) *Term {
	return c.BVBig(w, big.NewInt(v))
}

func (c *Ctx) BVBig(w int, v *big.Int) *Term {
	if w <= 0 {
		panic("smt: BV width <= 0")
	}
	return c.mk(&Term{Op: OConst, Sort: BVSort(w), Val: norm(v, w)})
}

func (c *Ctx) Bool(b bool) *Term {
	if b {
		return c.True
	}
	return c.False
}

func (c *Ctx) Var(name string, s Sort) *Term {
	return c.mk(&Term{Op: OVar, Sort: s, Name: name})
}

// Fresh returns a new variable with a unique name derived from prefix.
func (c *Ctx) Fresh(prefix string, s Sort) *Term {
	n := c.fresh[prefix]
	c.fresh[prefix] = n + 1
	return c.Var(fmt.Sprintf("%s!%d", prefix, n), s)
}

// ResetFresh resets fresh counters (so that names are deterministic per path).
func (c *Ctx) ResetFresh() { c.fresh = map[string]int{} }

func (t *Term) IsConst() bool { return t.Op == OConst }
func (t *Term) IsTrue() bool  { return t.Op == OConst && t.Sort.IsBool() && t.Val.Sign() != 0 }
func (t *Term) IsFalse() bool { return t.Op == OConst && t.Sort.IsBool() && t.Val.Sign() == 0 }

// Uint64 returns the constant value (low 64 bits).
func (t *Term) Uint64() uint64 { return new(big.Int).And(t.Val, mask(64)).Uint64() }

// Int64 returns the constant as signed value of its width.
func (t *Term) Int64() int64 { return signed(t.Val, t.Sort.W).Int64() }

func (c *Ctx) Not(a *Term) *Term {
	if a.IsTrue() {
		return c.False
	}
	if a.IsFalse() {
		return c.True
	}
	if a.Op == ONot {
		return a.Args[0]
	}
	return c.mk(&Term{Op: ONot, Sort: BoolSort, Args: []*Term{a}})
}

func (c *Ctx) And(as ...*Term) *Term {
	var out []*Term
	seen := map[int]bool{}
	for _, a := range as {
		if a.IsFalse() {
			return c.False
		}
		if a.IsTrue() {
			continue
		}
		if a.Op == OAnd {
			for _, b := range a.Args {
				if !seen[b.ID] {
					seen[b.ID] = true
					out = append(out, b)
				}
			}
			continue
		}
		if !seen[a.ID] {
			seen[a.ID] = true
			out = append(out, a)
		}
	}
	for _, a := range out {
		if a.Op == ONot && seen[a.Args[0].ID] {
			return c.False
		}
	}
	if len(out) == 0 {
		return c.True
	}
	if len(out) == 1 {
		return out[0]
	}
	return c.mk(&Term{Op: OAnd, Sort: BoolSort, Args: out})
}

func (c *Ctx) Or(as ...*Term) *Term {
	var out []*Term
	seen := map[int]bool{}
	for _, a := range as {
		if a.IsTrue() {
			return c.True
		}
		if a.IsFalse() {
			continue
		}
		if a.Op == OOr {
			for _, b := range a.Args {
				if !seen[b.ID] {
					seen[b.ID] = true
					out = append(out, b)
				}
			}
			continue
		}
		if !seen[a.ID] {
			seen[a.ID] = true
			out = append(out, a)
		}
	}
	for _, a := range out {
		if a.Op == ONot && seen[a.Args[0].ID] {
			return c.True
		}
	}
	if len(out) == 0 {
		return c.False
	}
	if len(out) == 1 {
		return out[0]
	}
	return c.mk(&Term{Op: OOr, Sort: BoolSort, Args: out})
}

func (c *Ctx) Implies(a, b *Term) *Term { return c.Or(c.Not(a), b) }

func (c *Ctx) Ite(cond, a, b *Term) *Term {
	if cond.IsTrue() {
		return a
	}
	if cond.IsFalse() {
		return b
	}
	if a == b {
		return a
	}
	if a.Sort != b.Sort {
		panic(fmt.Sprintf("smt: ite sort mismatch %v vs %v", a.Sort, b.Sort))
	}
	if a.Sort.IsBool() {
		if a.IsTrue() && b.IsFalse() {
			return cond
		}
		if a.IsFalse() && b.IsTrue() {
			return c.Not(cond)
		}
		if a.IsTrue() {
			return c.Or(cond, b)
		}
		if a.IsFalse() {
			return c.And(c.Not(cond), b)
		}
		if b.IsTrue() {
			return c.Or(c.Not(cond), a)
		}
		if b.IsFalse() {
			return c.And(cond, a)
		}
	}
	if cond.Op == ONot {
		return c.Ite(cond.Args[0], b, a)
	}
	// ite(c, x, ite(c, y, z)) = ite(c, x, z)
	if b.Op == OIte && b.Args[0] == cond {
		return c.Ite(cond, a, b.Args[2])
	}
	if a.Op == OIte && a.Args[0] == cond {
		return c.Ite(cond, a.Args[1], b)
	}
	return c.mk(&Term{Op: OIte, Sort: a.Sort, Args: []*Term{cond, a, b}})
}

func (c *Ctx) Eq(a, b *Term) *Term {
	if a == b {
		return c.True
	}
	if a.Sort != b.Sort {
		panic(fmt.Sprintf("smt: eq sort mismatch %v vs %v", a.Sort, b.Sort))
	}
	if a.IsConst() && b.IsConst() {
		return c.Bool(a.Val.Cmp(b.Val) == 0)
	}
	if b.IsConst() && !a.IsConst() {
		a, b = b, a
	}
	if a.Sort.IsBool() {
		if a.IsTrue() {
			return b
		}
		if a.IsFalse() {
			return c.Not(b)
		}
		if b.IsTrue() {
			return a
		}
		if b.IsFalse() {
			return c.Not(a)
		}
	}
	if a.Sort.W == 1 && !a.Sort.Arr {
		// 1-bit vectors: x = 0  <=>  not (x = 1)
		if isZero(a) {
			return c.Not(c.Eq(c.BV(1, 1), b))
		}
		if isZero(b) {
			return c.Not(c.Eq(c.BV(1, 1), a))
		}
	}
	// xor cancellation: (x^y = x^z) <=> (y = z) ; (x^y = x) <=> (y = 0)
	if a.Op == OBVXor || b.Op == OBVXor {
		if a.Op != OBVXor {
			a, b = b, a
		}
		if b.Op == OBVXor {
			for i := 0; i < 2; i++ {
				for j := 0; j < 2; j++ {
					if a.Args[i] == b.Args[j] {
						return c.Eq(a.Args[1-i], b.Args[1-j])
					}
				}
			}
		} else {
			for i := 0; i < 2; i++ {
				if a.Args[i] == b {
					return c.Eq(a.Args[1-i], c.BV(a.Sort.W, 0))
				}
			}
		}
		if a.IsConst() || (b.IsConst() && a.Op == OBVXor && !a.Args[0].IsConst() && !a.Args[1].IsConst()) {
			// keep constant first for the rules below
		}
		if b.IsConst() && !a.IsConst() {
			a, b = b, a
		}
	}
	// eq(k, or(c, y)) with a constant c that has a one where k has a zero: never equal
	if a.IsConst() && b.Op == OBVOr {
		for _, x := range b.Args {
			if x.IsConst() && new(big.Int).AndNot(x.Val, a.Val).Sign() != 0 {
				return c.False
			}
		}
	}
	// eq(ite(c,k1,k2),k) with constants
	if b.IsConst() && a.Op == OIte {
		a, b = b, a
	}
	if a.IsConst() && b.Op == OIte && (b.Args[1].IsConst() || b.Args[2].IsConst()) {
		return c.Ite(b.Args[0], c.Eq(a, b.Args[1]), c.Eq(a, b.Args[2]))
	}
	// eq(zext(x), const)
	if a.IsConst() && b.Op == OZExt {
		inner := b.Args[0]
		if a.Val.BitLen() > inner.Sort.W {
			return c.False
		}
		return c.Eq(c.BVBig(inner.Sort.W, a.Val), inner)
	}
	if a.IsConst() && b.Op == OConcat {
		// split constant
		lo := b.Args[1]
		hi := b.Args[0]
		loC := c.BVBig(lo.Sort.W, a.Val)
		hiC := c.BVBig(hi.Sort.W, new(big.Int).Rsh(a.Val, uint(lo.Sort.W)))
		return c.And(c.Eq(hiC, hi), c.Eq(loC, lo))
	}
	if a.ID > b.ID {
		a, b = b, a
	}
	return c.mk(&Term{Op: OEq, Sort: BoolSort, Args: []*Term{a, b}})
}

func (c *Ctx) Ne(a, b *Term) *Term { return c.Not(c.Eq(a, b)) }

func (c *Ctx) un(op Op, a *Term) *Term {
	w := a.Sort.W
	if a.IsConst() {
		switch op {
		case OBVNot:
			return c.BVBig(w, new(big.Int).Xor(a.Val, mask(w)))
		case OBVNeg:
			return c.BVBig(w, new(big.Int).Neg(a.Val))
		}
	}
	if a.Op == op {
		return a.Args[0]
	}
	return c.mk(&Term{Op: op, Sort: a.Sort, Args: []*Term{a}})
}

func (c *Ctx) BVNot(a *Term) *Term { return c.un(OBVNot, a) }
func (c *Ctx) BVNeg(a *Term) *Term { return c.un(OBVNeg, a) }

func isZero(t *Term) bool { return t.IsConst() && t.Val.Sign() == 0 }

// pow2 returns k if the constant is 2^k.
func pow2(t *Term) (int, bool) {
	if !t.IsConst() || t.Val.Sign() <= 0 {
		return 0, false
	}
	k := t.Val.BitLen() - 1
	if t.Val.TrailingZeroBits() == uint(k) {
		return k, true
	}
	return 0, false
}

// onesRun returns (lo, hi) if the constant is a contiguous run of ones from bit lo to bit hi.
func onesRun(t *Term) (int, int, bool) {
	if !t.IsConst() || t.Val.Sign() <= 0 {
		return 0, 0, false
	}
	lo := int(t.Val.TrailingZeroBits())
	hi := t.Val.BitLen() - 1
	run := new(big.Int).Rsh(t.Val, uint(lo))
	if run.Cmp(mask(hi-lo+1)) == 0 {
		return lo, hi, true
	}
	return 0, 0, false
}

// field builds the w-bit value that has x[hi:lo] at bit position `at` and zeros elsewhere.
func (c *Ctx) field(x *Term, hi, lo, at, w int) *Term {
	e := c.Extract(x, hi, lo)
	n := hi - lo + 1
	var r *Term = e
	if at > 0 {
		r = c.Concat(r, c.BV(at, 0))
	}
	if at+n < w {
		r = c.ZExt(r, w-at-n)
	}
	return r
}
func isOnes(t *Term) bool { return t.IsConst() && t.Val.Cmp(mask(t.Sort.W)) == 0 }
func isOne(t *Term) bool  { return t.IsConst() && t.Val.Cmp(big.NewInt(1)) == 0 }

func (c *Ctx) bin(op Op, a, b *Term) *Term {
	if a.Sort != b.Sort || !a.Sort.IsBV() {
		panic(fmt.Sprintf("smt: %s sort mismatch %v vs %v", opNames[op], a.Sort, b.Sort))
	}
	w := a.Sort.W
	if a.IsConst() && b.IsConst() {
		x, y := a.Val, b.Val
		r := new(big.Int)
		switch op {
		case OBVAnd:
			r.And(x, y)
		case OBVOr:
			r.Or(x, y)
		case OBVXor:
			r.Xor(x, y)
		case OBVAdd:
			r.Add(x, y)
		case OBVSub:
			r.Sub(x, y)
		case OBVMul:
			r.Mul(x, y)
		case OBVUDiv:
			if y.Sign() == 0 {
				r.Set(mask(w))
			} else {
				r.Quo(x, y)
			}
		case OBVURem:
			if y.Sign() == 0 {
				r.Set(x)
			} else {
				r.Rem(x, y)
			}
		case OBVSDiv:
			sx, sy := signed(x, w), signed(y, w)
			if sy.Sign() == 0 {
				if sx.Sign() >= 0 {
					r.Set(mask(w))
				} else {
					r.SetInt64(1)
				}
			} else {
				r.Quo(sx, sy)
			}
		case OBVSRem:
			sx, sy := signed(x, w), signed(y, w)
			if sy.Sign() == 0 {
				r.Set(sx)
			} else {
				r.Rem(sx, sy)
			}
		case OBVShl:
			if y.Cmp(big.NewInt(int64(w))) >= 0 {
				r.SetInt64(0)
			} else {
				r.Lsh(x, uint(y.Uint64()))
			}
		case OBVLshr:
			if y.Cmp(big.NewInt(int64(w))) >= 0 {
				r.SetInt64(0)
			} else {
				r.Rsh(x, uint(y.Uint64()))
			}
		case OBVAshr:
			sx := signed(x, w)
			if y.Cmp(big.NewInt(int64(w))) >= 0 {
				if sx.Sign() < 0 {
					r.SetInt64(-1)
				} else {
					r.SetInt64(0)
				}
			} else {
				r.Rsh(sx, uint(y.Uint64()))
			}
		}
		return c.BVBig(w, r)
	}
	switch op {
	case OBVAnd:
		if isZero(a) || isZero(b) {
			return c.BV(w, 0)
		}
		if isOnes(a) {
			return b
		}
		if isOnes(b) {
			return a
		}
		if a == b {
			return a
		}
		if a.IsConst() && !b.IsConst() {
			a, b = b, a
		}
		if lo, hi, ok := onesRun(b); ok {
			// x & (contiguous ones) = the field x[hi:lo] kept in place
			return c.field(a, hi, lo, lo, w)
		}
		// and(zext(x), const) where const covers only low bits handled by solver
	case OBVOr:
		if isZero(a) {
			return b
		}
		if isZero(b) {
			return a
		}
		if isOnes(a) || isOnes(b) {
			return c.BVBig(w, mask(w))
		}
		if a == b {
			return a
		}
	case OBVXor:
		if isZero(a) {
			return b
		}
		if isZero(b) {
			return a
		}
		if a == b {
			return c.BV(w, 0)
		}
	case OBVAdd:
		if isZero(a) {
			return b
		}
		if isZero(b) {
			return a
		}
		// (x + k1) + k2
		if b.IsConst() && a.Op == OBVAdd && a.Args[1].IsConst() {
			return c.bin(OBVAdd, a.Args[0], c.bin(OBVAdd, a.Args[1], b))
		}
		if a.IsConst() && !b.IsConst() {
			a, b = b, a
		}
		// (x - y) + y = x
		if a.Op == OBVSub && a.Args[1] == b {
			return a.Args[0]
		}
		if b.Op == OBVSub && b.Args[1] == a {
			return b.Args[0]
		}
	case OBVSub:
		if isZero(b) {
			return a
		}
		if a == b {
			return c.BV(w, 0)
		}
		if b.IsConst() {
			return c.bin(OBVAdd, a, c.BVBig(w, new(big.Int).Neg(b.Val)))
		}
		// (x + y) - y = x ; (x + y) - x = y
		if a.Op == OBVAdd {
			if a.Args[1] == b {
				return a.Args[0]
			}
			if a.Args[0] == b {
				return a.Args[1]
			}
			// (x + k) - (x) handled above; (x + k1) - (y + k2)?
			if b.Op == OBVAdd && a.Args[0] == b.Args[0] {
				return c.bin(OBVSub, a.Args[1], b.Args[1])
			}
		}
	case OBVMul:
		if isZero(a) || isZero(b) {
			return c.BV(w, 0)
		}
		if isOne(a) {
			return b
		}
		if isOne(b) {
			return a
		}
		if a.IsConst() && !b.IsConst() {
			a, b = b, a
		}
		if k, ok := pow2(b); ok && k < w {
			return c.field(a, w-1-k, 0, k, w)
		}
	case OBVUDiv:
		if isOne(b) {
			return a
		}
		if k, ok := pow2(b); ok && k < w {
			return c.field(a, w-1, k, 0, w)
		}
	case OBVURem:
		if isOne(b) {
			return c.BV(w, 0)
		}
		if k, ok := pow2(b); ok && k < w && k > 0 {
			return c.field(a, k-1, 0, 0, w)
		}
	case OBVShl, OBVLshr, OBVAshr:
		if isZero(b) {
			return a
		}
		if isZero(a) {
			return a
		}
		if b.IsConst() && b.Val.Cmp(big.NewInt(int64(w))) >= 0 && op != OBVAshr {
			return c.BV(w, 0)
		}
		if b.IsConst() && op == OBVLshr {
			k := int(b.Val.Int64())
			return c.field(a, w-1, k, 0, w)
		}
		if b.IsConst() && op == OBVShl {
			k := int(b.Val.Int64())
			return c.field(a, w-1-k, 0, k, w)
		}
	}
	return c.mk(&Term{Op: op, Sort: a.Sort, Args: []*Term{a, b}})
}

func (c *Ctx) BVAnd(a, b *Term) *Term  { return c.bin(OBVAnd, a, b) }
func (c *Ctx) BVOr(a, b *Term) *Term   { return c.bin(OBVOr, a, b) }
func (c *Ctx) BVXor(a, b *Term) *Term  { return c.bin(OBVXor, a, b) }
func (c *Ctx) BVAdd(a, b *Term) *Term  { return c.bin(OBVAdd, a, b) }
func (c *Ctx) BVSub(a, b *Term) *Term  { return c.bin(OBVSub, a, b) }
func (c *Ctx) BVMul(a, b *Term) *Term  { return c.bin(OBVMul, a, b) }
func (c *Ctx) BVUDiv(a, b *Term) *Term { return c.bin(OBVUDiv, a, b) }
func (c *Ctx) BVURem(a, b *Term) *Term { return c.bin(OBVURem, a, b) }
func (c *Ctx) BVSDiv(a, b *Term) *Term { return c.bin(OBVSDiv, a, b) }
func (c *Ctx) BVSRem(a, b *Term) *Term { return c.bin(OBVSRem, a, b) }
func (c *Ctx) BVShl(a, b *Term) *Term  { return c.bin(OBVShl, a, b) }
func (c *Ctx) BVLshr(a, b *Term) *Term { return c.bin(OBVLshr, a, b) }
func (c *Ctx) BVAshr(a, b *Term) *Term { return c.bin(OBVAshr, a, b) }

func (c *Ctx) cmp(op Op, a, b *Term) *Term {
	if a.Sort != b.Sort || !a.Sort.IsBV() {
		panic(fmt.Sprintf("smt: %s sort mismatch %v vs %v", opNames[op], a.Sort, b.Sort))
	}
	w := a.Sort.W
	if a.IsConst() && b.IsConst() {
		switch op {
		case OBVUlt:
			return c.Bool(a.Val.Cmp(b.Val) < 0)
		case OBVUle:
			return c.Bool(a.Val.Cmp(b.Val) <= 0)
		case OBVSlt:
			return c.Bool(signed(a.Val, w).Cmp(signed(b.Val, w)) < 0)
		case OBVSle:
			return c.Bool(signed(a.Val, w).Cmp(signed(b.Val, w)) <= 0)
		}
	}
	if a == b {
		return c.Bool(op == OBVUle || op == OBVSle)
	}
	switch op {
	case OBVUlt:
		if isZero(b) {
			return c.False
		}
		if isOnes(a) {
			return c.False
		}
		if isZero(a) {
			return c.Not(c.Eq(b, a))
		}
	case OBVUle:
		if isZero(a) {
			return c.True
		}
		if isOnes(b) {
			return c.True
		}
		if isZero(b) {
			return c.Eq(a, b)
		}
	}
	// comparisons of zext(x) against a constant that exceeds x's range
	if b.IsConst() && a.Op == OZExt && (op == OBVUlt || op == OBVUle) {
		iw := a.Args[0].Sort.W
		if b.Val.BitLen() > iw {
			return c.True
		}
		return c.cmp(op, a.Args[0], c.BVBig(iw, b.Val))
	}
	if a.IsConst() && b.Op == OZExt && (op == OBVUlt || op == OBVUle) {
		iw := b.Args[0].Sort.W
		if a.Val.BitLen() > iw {
			return c.False
		}
		return c.cmp(op, c.BVBig(iw, a.Val), b.Args[0])
	}
	if a.Op == OZExt && b.Op == OZExt && a.Args[0].Sort == b.Args[0].Sort {
		// zero extension preserves both unsigned and (if ext>0) signed order
		if op == OBVUlt || op == OBVUle {
			return c.cmp(op, a.Args[0], b.Args[0])
		}
		if op == OBVSlt {
			return c.cmp(OBVUlt, a.Args[0], b.Args[0])
		}
		if op == OBVSle {
			return c.cmp(OBVUle, a.Args[0], b.Args[0])
		}
	}
	// signed comparisons where both sides are provably non-negative
	if (op == OBVSlt || op == OBVSle) && nonNeg(a) && nonNeg(b) {
		if op == OBVSlt {
			return c.cmp(OBVUlt, a, b)
		}
		return c.cmp(OBVUle, a, b)
	}
	return c.mk(&Term{Op: op, Sort: BoolSort, Args: []*Term{a, b}})
}

func nonNeg(t *Term) bool {
	if t.IsConst() {
		return t.Val.Bit(t.Sort.W-1) == 0
	}
	if t.Op == OZExt && t.P1 > 0 {
		return true
	}
	if t.Op == OConcat {
		return nonNeg(t.Args[0])
	}
	return false
}

func (c *Ctx) Ult(a, b *Term) *Term { return c.cmp(OBVUlt, a, b) }
func (c *Ctx) Ule(a, b *Term) *Term { return c.cmp(OBVUle, a, b) }
func (c *Ctx) Slt(a, b *Term) *Term { return c.cmp(OBVSlt, a, b) }
func (c *Ctx) Sle(a, b *Term) *Term { return c.cmp(OBVSle, a, b) }
func (c *Ctx) Ugt(a, b *Term) *Term { return c.cmp(OBVUlt, b, a) }
func (c *Ctx) Uge(a, b *Term) *Term { return c.cmp(OBVUle, b, a) }
func (c *Ctx) Sgt(a, b *Term) *Term { return c.cmp(OBVSlt, b, a) }
func (c *Ctx) Sge(a, b *Term) *Term { return c.cmp(OBVSle, b, a) }

// Concat: hi is the most significant part.
func (c *Ctx) Concat(hi, lo *Term) *Term {
	if hi.IsConst() && lo.IsConst() {
		v := new(big.Int).Lsh(hi.Val, uint(lo.Sort.W))
		v.Or(v, lo.Val)
		return c.BVBig(hi.Sort.W+lo.Sort.W, v)
	}
	if isZero(hi) {
		return c.ZExt(lo, hi.Sort.W)
	}
	// concat(extract(x,h,m+1), extract(x,m,l)) = extract(x,h,l)
	if hi.Op == OExtract && lo.Op == OExtract && hi.Args[0] == lo.Args[0] && hi.P2 == lo.P1+1 {
		return c.Extract(hi.Args[0], hi.P1, lo.P2)
	}
	// concat(concat(a, extract(x,h,m+1)), extract(x,m,l)) = concat(a, extract(x,h,l))
	if hi.Op == OConcat && lo.Op == OExtract {
		t := hi.Args[1]
		if t.Op == OExtract && t.Args[0] == lo.Args[0] && t.P2 == lo.P1+1 {
			return c.Concat(hi.Args[0], c.Extract(t.Args[0], t.P1, lo.P2))
		}
		// a full-width term followed by the next extract cannot merge; but a previous merge may
		// have produced the full term x itself: concat(a, x[hi..]) handled above only
	}
	if hi.Op == OConcat && lo.IsConst() && hi.Args[1].IsConst() {
		return c.Concat(hi.Args[0], c.Concat(hi.Args[1], lo))
	}
	return c.mk(&Term{Op: OConcat, Sort: BVSort(hi.Sort.W + lo.Sort.W), Args: []*Term{hi, lo}})
}

func (c *Ctx) Extract(a *Term, hi, lo int) *Term {
	w := a.Sort.W
	if hi >= w || lo < 0 || hi < lo {
		panic(fmt.Sprintf("smt: bad extract [%d:%d] of width %d", hi, lo, w))
	}
	if lo == 0 && hi == w-1 {
		return a
	}
	nw := hi - lo + 1
	if a.IsConst() {
		return c.BVBig(nw, new(big.Int).Rsh(a.Val, uint(lo)))
	}
	switch a.Op {
	case OExtract:
		return c.Extract(a.Args[0], a.P2+hi, a.P2+lo)
	case OZExt:
		iw := a.Args[0].Sort.W
		if hi < iw {
			return c.Extract(a.Args[0], hi, lo)
		}
		if lo >= iw {
			return c.BV(nw, 0)
		}
		return c.ZExt(c.Extract(a.Args[0], iw-1, lo), hi-iw+1)
	case OSExt:
		iw := a.Args[0].Sort.W
		if hi < iw {
			return c.Extract(a.Args[0], hi, lo)
		}
	case OConcat:
		lw := a.Args[1].Sort.W
		if hi < lw {
			return c.Extract(a.Args[1], hi, lo)
		}
		if lo >= lw {
			return c.Extract(a.Args[0], hi-lw, lo-lw)
		}
		return c.Concat(c.Extract(a.Args[0], hi-lw, 0), c.Extract(a.Args[1], lw-1, lo))
	case OIte:
		if a.Args[1].IsConst() || a.Args[2].IsConst() {
			return c.Ite(a.Args[0], c.Extract(a.Args[1], hi, lo), c.Extract(a.Args[2], hi, lo))
		}
	case OBVAnd, OBVOr, OBVXor:
		if lo == 0 || a.Args[0].IsConst() || a.Args[1].IsConst() {
			return c.bin(a.Op, c.Extract(a.Args[0], hi, lo), c.Extract(a.Args[1], hi, lo))
		}
	case OBVAdd, OBVSub, OBVMul:
		if lo == 0 {
			return c.bin(a.Op, c.Extract(a.Args[0], hi, 0), c.Extract(a.Args[1], hi, 0))
		}
	case OBVShl:
		if lo == 0 && a.Args[1].IsConst() {
			return c.bin(OBVShl, c.Extract(a.Args[0], hi, 0), c.BVBig(nw, a.Args[1].Val))
		}
	}
	return c.mk(&Term{Op: OExtract, Sort: BVSort(nw), Args: []*Term{a}, P1: hi, P2: lo})
}

func (c *Ctx) ZExt(a *Term, n int) *Term {
	if n == 0 {
		return a
	}
	if a.IsConst() {
		return c.BVBig(a.Sort.W+n, a.Val)
	}
	if a.Op == OZExt {
		return c.ZExt(a.Args[0], n+a.P1)
	}
	if a.Op == OIte && (a.Args[1].IsConst() && a.Args[2].IsConst()) {
		return c.Ite(a.Args[0], c.ZExt(a.Args[1], n), c.ZExt(a.Args[2], n))
	}
	return c.mk(&Term{Op: OZExt, Sort: BVSort(a.Sort.W + n), Args: []*Term{a}, P1: n})
}

func (c *Ctx) SExt(a *Term, n int) *Term {
	if n == 0 {
		return a
	}
	if a.IsConst() {
		return c.BVBig(a.Sort.W+n, signed(a.Val, a.Sort.W))
	}
	if a.Op == OZExt && a.P1 > 0 {
		return c.ZExt(a.Args[0], n+a.P1)
	}
	return c.mk(&Term{Op: OSExt, Sort: BVSort(a.Sort.W + n), Args: []*Term{a}, P1: n})
}

// Resize converts a to width w (truncate or extend per signedness).
func (c *Ctx) Resize(a *Term, w int, signedSrc bool) *Term {
	if a.Sort.W == w {
		return a
	}
	if a.Sort.W > w {
		return c.Extract(a, w-1, 0)
	}
	if signedSrc {
		return c.SExt(a, w-a.Sort.W)
	}
	return c.ZExt(a, w-a.Sort.W)
}

func (c *Ctx) Select(arr, idx *Term) *Term {
	for arr.Op == OStore {
		si := arr.Args[1]
		if si == idx {
			return arr.Args[2]
		}
		if si.IsConst() && idx.IsConst() {
			arr = arr.Args[0]
			continue
		}
		break
	}
	return c.mk(&Term{Op: OSelect, Sort: BVSort(arr.Sort.W), Args: []*Term{arr, idx}})
}

func (c *Ctx) Store(arr, idx, v *Term) *Term {
	return c.mk(&Term{Op: OStore, Sort: arr.Sort, Args: []*Term{arr, idx, v}})
}

// App applies an uninterpreted function; it is declared on first use.
func (c *Ctx) App(name string, ret Sort, args ...*Term) *Term {
	d, ok := c.UFs[name]
	if !ok {
		d = &UFDecl{Name: name, Ret: ret}
		for _, a := range args {
			d.Args = append(d.Args, a.Sort)
		}
		c.UFs[name] = d
		c.UFOrd = append(c.UFOrd, name)
	} else {
		if len(d.Args) != len(args) || d.Ret != ret {
			panic("smt: UF " + name + " used with different signature")
		}
		for i, a := range args {
			if d.Args[i] != a.Sort {
				panic("smt: UF " + name + " used with different argument sorts")
			}
		}
	}
	return c.mk(&Term{Op: OApp, Sort: ret, Name: name, Args: append([]*Term(nil), args...)})
}

// BoolToBV converts a Bool term to a 1-bit... w-bit vector (0/1).
func (c *Ctx) BoolToBV(b *Term, w int) *Term {
	return c.Ite(b, c.BV(w, 1), c.BV(w, 0))
}
