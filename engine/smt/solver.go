package smt

import (
	"bufio"
	"fmt"
	"io"
	"math/big"
	"os"
	"os/exec"
	"sort"
	"strings"
	"time"
)

type Result int

const (
	Unsat Result = iota
	Sat
	Unknown
)

func (r Result) String() string {
	switch r {
	case Unsat:
		return "unsat"
	case Sat:
		return "sat"
	}
	return "unknown"
}

// Solver is one long-lived SMT-LIB2 process. Term definitions are emitted once at
// assertion level 0 (define-fun), queries are push/assert/check-sat/pop.
type Solver struct {
	Kind     string // z3 | z3-new | cvc5
	ctx      *Ctx
	cmd      *exec.Cmd
	in       io.WriteCloser
	out      *bufio.Reader
	emitted  map[int]bool
	declUF   map[string]bool
	Queries  int
	NSat     int
	NUnsat   int
	NUnknown int
	Time     time.Duration
	Log      io.Writer
	TimeoutS int
	// NextTimeoutMs, when > 0, is the soft timeout applied to the following queries (z3).
	NextTimeoutMs int
	dead          bool
	LastErr       string
}

func SolverArgs(kind string, timeoutS int) (string, []string) {
	switch kind {
	case "z3":
		return "z3", []string{"-in", fmt.Sprintf("-t:%d", timeoutS*1000)}
	case "z3-new":
		return "z3-new", []string{"-in", fmt.Sprintf("-t:%d", timeoutS*1000)}
	case "cvc5":
		return "cvc5", []string{"--incremental", "--lang=smt2", fmt.Sprintf("--tlimit-per=%d", timeoutS*1000)}
	}
	panic("unknown solver kind " + kind)
}

func NewSolver(kind string, ctx *Ctx, timeoutS int) (*Solver, error) {
	if timeoutS <= 0 {
		timeoutS = 60
	}
	s := &Solver{Kind: kind, ctx: ctx, TimeoutS: timeoutS}
	if err := s.start(); err != nil {
		return nil, err
	}
	return s, nil
}

func (s *Solver) start() error {
	bin, args := SolverArgs(s.Kind, s.TimeoutS)
	cmd := exec.Command(bin, args...)
	in, err := cmd.StdinPipe()
	if err != nil {
		return err
	}
	out, err := cmd.StdoutPipe()
	if err != nil {
		return err
	}
	cmd.Stderr = cmd.Stdout
	if err := cmd.Start(); err != nil {
		return err
	}
	s.cmd = cmd
	s.in = in
	s.out = bufio.NewReaderSize(out, 1<<20)
	s.emitted = map[int]bool{}
	s.declUF = map[string]bool{}
	s.dead = false
	s.send("(set-option :produce-models true)\n")
	if s.Kind == "cvc5" {
		s.send("(set-logic ALL)\n")
	}
	return nil
}

func (s *Solver) Close() {
	if s.cmd != nil {
		s.in.Close()
		done := make(chan struct{})
		go func() { s.cmd.Wait(); close(done) }()
		select {
		case <-done:
		case <-time.After(2 * time.Second):
			s.cmd.Process.Kill()
		}
		s.cmd = nil
	}
}

func (s *Solver) Restart() error {
	if s.cmd != nil {
		s.cmd.Process.Kill()
		s.cmd.Wait()
	}
	return s.start()
}

func (s *Solver) send(str string) {
	if s.Log != nil {
		io.WriteString(s.Log, str)
	}
	if _, err := io.WriteString(s.in, str); err != nil {
		s.dead = true
	}
}

func (s *Solver) readLine() string {
	line, err := s.out.ReadString('\n')
	if err != nil {
		s.dead = true
		return "(error \"solver died: " + err.Error() + "\")"
	}
	return strings.TrimSpace(line)
}

func name(t *Term) string { return fmt.Sprintf("t%d", t.ID) }

func bvLit(v *big.Int, w int) string {
	if w%4 == 0 {
		s := v.Text(16)
		return "#x" + strings.Repeat("0", w/4-len(s)) + s
	}
	s := v.Text(2)
	return "#b" + strings.Repeat("0", w-len(s)) + s
}

func ref(t *Term) string {
	switch t.Op {
	case OConst:
		if t.Sort.IsBool() {
			if t.Val.Sign() != 0 {
				return "true"
			}
			return "false"
		}
		return bvLit(t.Val, t.Sort.W)
	case OVar:
		return "|" + t.Name + "|"
	}
	return name(t)
}

func body(t *Term) string {
	var sb strings.Builder
	switch t.Op {
	case OExtract:
		fmt.Fprintf(&sb, "((_ extract %d %d) %s)", t.P1, t.P2, ref(t.Args[0]))
	case OZExt:
		fmt.Fprintf(&sb, "((_ zero_extend %d) %s)", t.P1, ref(t.Args[0]))
	case OSExt:
		fmt.Fprintf(&sb, "((_ sign_extend %d) %s)", t.P1, ref(t.Args[0]))
	case OApp:
		if len(t.Args) == 0 {
			sb.WriteString("|" + t.Name + "|")
			break
		}
		sb.WriteString("(|" + t.Name + "|")
		for _, a := range t.Args {
			sb.WriteByte(' ')
			sb.WriteString(ref(a))
		}
		sb.WriteByte(')')
	default:
		sb.WriteByte('(')
		sb.WriteString(opNames[t.Op])
		for _, a := range t.Args {
			sb.WriteByte(' ')
			sb.WriteString(ref(a))
		}
		sb.WriteByte(')')
	}
	return sb.String()
}

// define makes sure every node below the given terms is declared/defined in the solver.
func (s *Solver) define(ts []*Term) {
	var todo []*Term
	var walk func(t *Term)
	walk = func(t *Term) {
		if s.emitted[t.ID] {
			return
		}
		s.emitted[t.ID] = true
		for _, a := range t.Args {
			walk(a)
		}
		todo = append(todo, t)
	}
	for _, t := range ts {
		walk(t)
	}
	sort.Slice(todo, func(i, j int) bool { return todo[i].ID < todo[j].ID })
	var sb strings.Builder
	for _, t := range todo {
		switch t.Op {
		case OConst:
		case OVar:
			fmt.Fprintf(&sb, "(declare-fun |%s| () %s)\n", t.Name, t.Sort)
		default:
			if t.Op == OApp && !s.declUF[t.Name] {
				s.declUF[t.Name] = true
				d := s.ctx.UFs[t.Name]
				var as []string
				for _, a := range d.Args {
					as = append(as, a.String())
				}
				fmt.Fprintf(&sb, "(declare-fun |%s| (%s) %s)\n", d.Name, strings.Join(as, " "), d.Ret)
			}
			fmt.Fprintf(&sb, "(define-fun %s () %s %s)\n", name(t), t.Sort, body(t))
		}
	}
	if sb.Len() > 0 {
		s.send(sb.String())
	}
}

// Check decides the conjunction of the assertions. If wantModel is non-nil and the result is
// sat, the values of those terms are returned (big.Int; Bool as 0/1).
func (s *Solver) Check(asserts []*Term, wantModel []*Term) (Result, []*big.Int) {
	t0 := time.Now()
	defer func() { s.Time += time.Since(t0) }()
	s.Queries++
	if s.dead {
		if err := s.Restart(); err != nil {
			s.NUnknown++
			return Unknown, nil
		}
	}
	all := append(append([]*Term(nil), asserts...), wantModel...)
	s.define(all)
	var sb strings.Builder
	if s.NextTimeoutMs > 0 && s.Kind != "cvc5" {
		fmt.Fprintf(&sb, "(set-option :timeout %d)\n", s.NextTimeoutMs)
	}
	sb.WriteString("(push 1)\n")
	for _, a := range asserts {
		if a.IsTrue() {
			continue
		}
		fmt.Fprintf(&sb, "(assert %s)\n", ref(a))
	}
	sb.WriteString("(check-sat)\n")
	s.send(sb.String())
	res := Unknown
	for {
		line := s.readLine()
		if line == "sat" {
			res = Sat
			break
		}
		if line == "unsat" {
			res = Unsat
			break
		}
		if line == "unknown" || line == "timeout" {
			res = Unknown
			break
		}
		if strings.HasPrefix(line, "(error") {
			s.LastErr = line
			fmt.Fprintf(os.Stderr, "solver %s: %s\n", s.Kind, line)
			res = Unknown
			if s.dead {
				break
			}
			// keep reading: the check-sat answer still follows, but the verdict is not trusted
			for {
				l2 := s.readLine()
				if l2 == "sat" || l2 == "unsat" || l2 == "unknown" || s.dead {
					break
				}
			}
			break
		}
		if s.dead {
			break
		}
	}
	var vals []*big.Int
	if res == Sat && len(wantModel) > 0 {
		vals = s.getValues(wantModel)
	}
	s.send("(pop 1)\n")
	switch res {
	case Sat:
		s.NSat++
	case Unsat:
		s.NUnsat++
	default:
		s.NUnknown++
	}
	return res, vals
}

func (s *Solver) getValues(ts []*Term) []*big.Int {
	vals := make([]*big.Int, len(ts))
	const chunk = 64
	for i := 0; i < len(ts); i += chunk {
		j := i + chunk
		if j > len(ts) {
			j = len(ts)
		}
		var sb strings.Builder
		sb.WriteString("(get-value (")
		for _, t := range ts[i:j] {
			sb.WriteString(ref(t))
			sb.WriteByte(' ')
		}
		sb.WriteString("))\n")
		s.send(sb.String())
		// read a balanced s-expression
		txt := s.readSexp()
		parsed := parseValues(txt)
		for k := range ts[i:j] {
			if k < len(parsed) {
				vals[i+k] = parsed[k]
			} else {
				vals[i+k] = big.NewInt(0)
			}
		}
	}
	return vals
}

func (s *Solver) readSexp() string {
	var sb strings.Builder
	depth := 0
	started := false
	for {
		line := s.readLine()
		if s.dead {
			return sb.String()
		}
		sb.WriteString(line)
		sb.WriteByte(' ')
		inBar := false
		for _, ch := range line {
			if ch == '|' {
				inBar = !inBar
			}
			if inBar {
				continue
			}
			if ch == '(' {
				depth++
				started = true
			} else if ch == ')' {
				depth--
			}
		}
		if started && depth <= 0 {
			return sb.String()
		}
	}
}

// parseValues extracts the value literals from "((name val) (name val) ...)".
func parseValues(txt string) []*big.Int {
	var out []*big.Int
	toks := tokenize(txt)
	// toks: ( ( name val ) ( name val ) ... ) ; val may be (_ bvN w)
	i := 0
	if i < len(toks) && toks[i] == "(" {
		i++
	}
	for i < len(toks) && toks[i] == "(" {
		i++ // (
		// name: may be an s-expr
		i = skipSexp(toks, i)
		// value
		start := i
		i = skipSexp(toks, i)
		out = append(out, parseLit(toks[start:i]))
		if i < len(toks) && toks[i] == ")" {
			i++
		}
	}
	return out
}

func skipSexp(toks []string, i int) int {
	if i >= len(toks) {
		return i
	}
	if toks[i] != "(" {
		return i + 1
	}
	d := 0
	for i < len(toks) {
		if toks[i] == "(" {
			d++
		} else if toks[i] == ")" {
			d--
			if d == 0 {
				return i + 1
			}
		}
		i++
	}
	return i
}

func parseLit(toks []string) *big.Int {
	if len(toks) == 0 {
		return big.NewInt(0)
	}
	t := toks[0]
	switch {
	case t == "true":
		return big.NewInt(1)
	case t == "false":
		return big.NewInt(0)
	case strings.HasPrefix(t, "#x"):
		v, _ := new(big.Int).SetString(t[2:], 16)
		return v
	case strings.HasPrefix(t, "#b"):
		v, _ := new(big.Int).SetString(t[2:], 2)
		return v
	case t == "(" && len(toks) >= 4 && toks[1] == "_" && strings.HasPrefix(toks[2], "bv"):
		v, _ := new(big.Int).SetString(toks[2][2:], 10)
		return v
	}
	return big.NewInt(0)
}

func tokenize(s string) []string {
	var toks []string
	i := 0
	for i < len(s) {
		ch := s[i]
		switch {
		case ch == '(' || ch == ')':
			toks = append(toks, string(ch))
			i++
		case ch == ' ' || ch == '\t' || ch == '\n' || ch == '\r':
			i++
		case ch == '|':
			j := i + 1
			for j < len(s) && s[j] != '|' {
				j++
			}
			toks = append(toks, s[i:min(j+1, len(s))])
			i = j + 1
		default:
			j := i
			for j < len(s) && s[j] != '(' && s[j] != ')' && s[j] != ' ' && s[j] != '\n' {
				j++
			}
			toks = append(toks, s[i:j])
			i = j
		}
	}
	return toks
}

// Script renders a standalone SMT-LIB2 script for the assertions (used for cross-checking
// final verdicts on other solvers and for debugging).
func Script(ctx *Ctx, asserts []*Term) string {
	s := &Solver{ctx: ctx, emitted: map[int]bool{}, declUF: map[string]bool{}}
	var sb strings.Builder
	s.in = nopCloser{&sb}
	sb.WriteString("(set-logic ALL)\n")
	s.define(asserts)
	for _, a := range asserts {
		fmt.Fprintf(&sb, "(assert %s)\n", ref(a))
	}
	sb.WriteString("(check-sat)\n")
	return sb.String()
}

type nopCloser struct{ io.Writer }

func (nopCloser) Close() error { return nil }

// OneShot runs a standalone script on a fresh solver process.
func OneShot(kind string, script string, timeoutS int) (Result, time.Duration, string) {
	bin, args := SolverArgs(kind, timeoutS)
	cmd := exec.Command(bin, args...)
	cmd.Stdin = strings.NewReader(script)
	t0 := time.Now()
	done := make(chan struct{})
	var out []byte
	go func() { out, _ = cmd.CombinedOutput(); close(done) }()
	select {
	case <-done:
	case <-time.After(time.Duration(timeoutS+5) * time.Second):
		if cmd.Process != nil {
			cmd.Process.Kill()
		}
		<-done
	}
	d := time.Since(t0)
	txt := string(out)
	if strings.Contains(txt, "(error") {
		return Unknown, d, txt
	}
	for _, line := range strings.Split(txt, "\n") {
		line = strings.TrimSpace(line)
		if line == "sat" {
			return Sat, d, txt
		}
		if line == "unsat" {
			return Unsat, d, txt
		}
	}
	return Unknown, d, txt
}

// Portfolio decides the conjunction on fresh one-shot processes of all three solvers in parallel
// (non-incremental solving is often far stronger than the push/pop session); the first definite
// verdict wins. Used as a fallback when the incremental session answers unknown/timeout.
func Portfolio(ctx *Ctx, asserts []*Term, want []*Term, timeoutS int) (Result, []*big.Int, string) {
	s := &Solver{ctx: ctx, emitted: map[int]bool{}, declUF: map[string]bool{}}
	var sb strings.Builder
	s.in = nopCloser{&sb}
	sb.WriteString("(set-option :produce-models true)\n(set-logic ALL)\n")
	s.define(append(append([]*Term(nil), asserts...), want...))
	for _, a := range asserts {
		if !a.IsTrue() {
			fmt.Fprintf(&sb, "(assert %s)\n", ref(a))
		}
	}
	sb.WriteString("(check-sat)\n")
	if len(want) > 0 {
		for i := 0; i < len(want); i += 64 {
			j := i + 64
			if j > len(want) {
				j = len(want)
			}
			sb.WriteString("(get-value (")
			for _, t := range want[i:j] {
				sb.WriteString(ref(t))
				sb.WriteByte(' ')
			}
			sb.WriteString("))\n")
		}
	}
	script := sb.String()
	type ans struct {
		r    Result
		out  string
		kind string
	}
	kinds := []string{"z3-new", "cvc5", "z3"}
	ch := make(chan ans, len(kinds))
	var cmds []*exec.Cmd
	for _, k := range kinds {
		var bin string
		var args []string
		switch k {
		case "cvc5":
			bin, args = "cvc5", []string{"--lang=smt2", fmt.Sprintf("--tlimit=%d", timeoutS*1000)}
		default:
			bin, args = k, []string{"-in", fmt.Sprintf("-T:%d", timeoutS)}
		}
		cmd := exec.Command(bin, args...)
		cmd.Stdin = strings.NewReader(script)
		cmds = append(cmds, cmd)
		go func(k string, cmd *exec.Cmd) {
			out, _ := cmd.CombinedOutput()
			txt := string(out)
			r := Unknown
			if !strings.Contains(txt, "(error") {
				for _, line := range strings.Split(txt, "\n") {
					line = strings.TrimSpace(line)
					if line == "sat" {
						r = Sat
						break
					}
					if line == "unsat" {
						r = Unsat
						break
					}
				}
			} else if strings.HasPrefix(strings.TrimSpace(txt), "unsat") {
				// errors after an unsat verdict come from get-value; the verdict stands
				r = Unsat
			}
			ch <- ans{r, txt, k}
		}(k, cmd)
	}
	res, who := Unknown, ""
	var vals []*big.Int
	for i := 0; i < len(kinds); i++ {
		a := <-ch
		if a.r == Unknown {
			continue
		}
		res, who = a.r, a.kind
		if a.r == Sat && len(want) > 0 {
			idx := strings.Index(a.out, "sat")
			rest := a.out[idx+3:]
			// concatenate all get-value answers
			toks := tokenize(rest)
			// each answer is "((name val) ...)": parse sequentially
			pos := 0
			for pos < len(toks) {
				end := skipSexp(toks, pos)
				vals = append(vals, parseValues(strings.Join(toks[pos:end], " "))...)
				pos = end
			}
			for len(vals) < len(want) {
				vals = append(vals, big.NewInt(0))
			}
		}
		break
	}
	for _, c := range cmds {
		if c.Process != nil {
			c.Process.Kill()
		}
	}
	if dir := os.Getenv("VERIF_DUMP_UNKNOWN"); dir != "" && res == Unknown {
		dumpSeq++
		os.WriteFile(fmt.Sprintf("%s/unknown-%d-%d.smt2", dir, os.Getpid(), dumpSeq), []byte(script), 0o644)
	}
	return res, vals, who
}

var dumpSeq int
