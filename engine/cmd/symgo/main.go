// symgo: loads /repo's current source (plus overlay harness files), builds go/ssa and runs the
// symbolic executor on the harnesses of one property; writes the evidence file and decides.
package main

import (
	"encoding/json"
	"flag"
	"fmt"
	"go/ast"
	"math/big"
	"os"
	"path/filepath"
	"regexp"
	"sort"
	"strconv"
	"strings"
	"sync"
	"time"

	"golang.org/x/tools/go/packages"
	"golang.org/x/tools/go/ssa"
	"golang.org/x/tools/go/ssa/ssautil"

	"verif/engine/symgo"
)

type harnessDecl struct {
	Name     string // C15.single
	Func     string
	PkgPath  string
	PkgDir   string // relative to repo
	Tier     string // quick | thorough | both
	Cfg      symgo.Config
	ModelFns map[string]string
	ParamsQ  map[string]int64
	ParamsT  map[string]int64
	Native   bool
	File     string
}

var (
	flagRepo     = flag.String("repo", "/repo", "repository root")
	flagHarness  = flag.String("harness", "/verif/harness", "harness directory")
	flagProp     = flag.String("prop", "", "property id (e.g. C15)")
	flagTier     = flag.String("tier", "quick", "quick | thorough")
	flagOnly     = flag.String("only", "", "run only harnesses whose name contains this")
	flagOut      = flag.String("out", "", "report JSON output file")
	flagReplay   = flag.String("replay", "", "replay file (pins inputs and decisions)")
	flagSolver   = flag.String("solver", "z3-new", "primary incremental solver (z3-new = z3 5.1.0)")
	flagJobs     = flag.Int("j", 16, "parallel harnesses")
	flagVerbose  = flag.Bool("v", false, "verbose")
	flagSMTLog   = flag.String("smtlog", "", "write solver dialogue of the (single) harness here")
	flagMaxPaths = flag.Int("maxpaths", 0, "override maxpaths")
	flagWall     = flag.Int("wall", 0, "override per-harness wall budget (s)")
)

func main() {
	flag.Parse()
	if *flagProp == "" {
		fmt.Fprintln(os.Stderr, "usage: symgo -prop Cnn [-tier quick|thorough]")
		os.Exit(2)
	}
	os.Exit(run())
}

var reHarness = regexp.MustCompile(`^//verif:harness\s+(\S+)(.*)$`)

func run() int {
	t0 := time.Now()
	decls, overlay, pkgDirs, err := scanHarnessDir(*flagHarness, *flagRepo, *flagProp)
	if err != nil {
		fmt.Fprintln(os.Stderr, "scan:", err)
		return 3
	}
	if len(decls) == 0 {
		fmt.Fprintf(os.Stderr, "no harness for %s\n", *flagProp)
		return 3
	}
	var patterns []string
	for d := range pkgDirs {
		patterns = append(patterns, "./"+d)
	}
	sort.Strings(patterns)
	cfg := &packages.Config{
		Mode:       packages.LoadAllSyntax,
		Dir:        *flagRepo,
		BuildFlags: []string{"-tags=verif"},
		Overlay:    overlay,
		Env:        append(os.Environ(), "GOFLAGS=-mod=mod", "GOPROXY=off"),
	}
	pkgs, err := packages.Load(cfg, patterns...)
	if err != nil {
		fmt.Fprintln(os.Stderr, "load:", err)
		return 3
	}
	nerr := 0
	packages.Visit(pkgs, nil, func(p *packages.Package) {
		for _, e := range p.Errors {
			if strings.HasPrefix(p.PkgPath, "github.com/zen-eth/shisui") {
				fmt.Fprintln(os.Stderr, "load error:", e)
				nerr++
			}
		}
	})
	if nerr > 0 {
		fmt.Fprintln(os.Stderr, "the repository (with harness overlay) does not type-check")
		return 3
	}
	prog, spkgs := ssautil.AllPackages(pkgs, ssa.InstantiateGenerics)
	for _, sp := range spkgs {
		if sp != nil {
			sp.Build()
		}
	}
	loadT := time.Since(t0)
	if *flagVerbose {
		fmt.Fprintf(os.Stderr, "loaded %d packages in %v\n", len(prog.AllPackages()), loadT)
	}
	byPath := map[string]*ssa.Package{}
	for _, sp := range spkgs {
		if sp != nil {
			byPath[sp.Pkg.Path()] = sp
		}
	}
	pkgPathOfDir := map[string]string{}
	for _, p := range pkgs {
		for _, f := range p.CompiledGoFiles {
			rel, _ := filepath.Rel(*flagRepo, filepath.Dir(f))
			pkgPathOfDir[rel] = p.PkgPath
		}
		_ = ast.Inspect
	}

	var replay *replayFile
	if *flagReplay != "" {
		replay, err = readReplay(*flagReplay)
		if err != nil {
			fmt.Fprintln(os.Stderr, "replay:", err)
			return 3
		}
	}

	var runList []*harnessDecl
	for _, d := range decls {
		if *flagOnly != "" && !strings.Contains(d.Name, *flagOnly) {
			continue
		}
		if replay != nil && d.Name != replay.Harness {
			continue
		}
		if replay == nil && d.Tier != "both" && d.Tier != *flagTier {
			continue
		}
		d.PkgPath = pkgPathOfDir[d.PkgDir]
		sp := byPath[d.PkgPath]
		if sp == nil {
			fmt.Fprintf(os.Stderr, "package for %s (%s) not loaded\n", d.Name, d.PkgDir)
			return 3
		}
		fn := sp.Func(d.Func)
		if fn == nil {
			fmt.Fprintf(os.Stderr, "harness function %s not found in %s\n", d.Func, d.PkgPath)
			return 3
		}
		d.Cfg.Harness = fn
		d.Cfg.Name = d.Name
		d.Cfg.Models = map[string]*ssa.Function{}
		for target, mf := range d.ModelFns {
			m := sp.Func(mf)
			if m == nil {
				fmt.Fprintf(os.Stderr, "model function %s not found for %s\n", mf, d.Name)
				return 3
			}
			d.Cfg.Models[target] = m
		}
		if *flagTier == "thorough" {
			d.Cfg.Params = d.ParamsT
		} else {
			d.Cfg.Params = d.ParamsQ
		}
		d.Cfg.Tier = *flagTier
		d.Cfg.CrossCheck = (*flagTier == "thorough" || os.Getenv("VERIF_CROSSCHECK") != "") && os.Getenv("VERIF_CROSSCHECK") != "0" && replay == nil
		d.Cfg.Solver = *flagSolver
		if *flagMaxPaths > 0 {
			d.Cfg.MaxPaths = *flagMaxPaths
		}
		if *flagWall > 0 {
			d.Cfg.WallS = *flagWall
		}
		if replay != nil {
			d.Cfg.Pinned = map[string]*big.Int{}
			d.Cfg.PinnedBytes = map[string]string{}
			for k, v := range replay.Inputs {
				if strings.HasPrefix(v, "0x") {
					bi, _ := new(big.Int).SetString(v[2:], 16)
					d.Cfg.Pinned[k] = bi
				} else if strings.HasPrefix(k, "choose!") {
					n, _ := strconv.ParseInt(v, 10, 64)
					d.Cfg.Pinned[k] = big.NewInt(n)
				} else if strings.HasPrefix(k, "param!") {
					continue
				} else if strings.HasSuffix(k, "#len") {
					n, _ := strconv.ParseInt(v, 10, 64)
					d.Cfg.Pinned[k] = big.NewInt(n)
				} else {
					d.Cfg.PinnedBytes[k] = v
				}
			}
			// inputs and harness choices are pinned; the remaining (engine-internal) forks - stub
			// outcomes, task orders, cancellation points - are explored exhaustively
			d.Cfg.MaxPaths = 20000
			d.Cfg.WallS = 120
		}
		runList = append(runList, d)
	}
	if len(runList) == 0 {
		fmt.Fprintf(os.Stderr, "no harness selected for %s tier %s\n", *flagProp, *flagTier)
		return 3
	}

	reports := make([]*symgo.Report, len(runList))
	var wg sync.WaitGroup
	pool := symgo.NewPool(*flagJobs)
	// longest-first is unknown; start all harnesses, the pool bounds the solver processes
	for i, d := range runList {
		wg.Add(1)
		go func(i int, d *harnessDecl) {
			defer wg.Done()
			var logf *os.File
			rep, err := symgo.RunHarness(prog, &d.Cfg, pool, func(in *symgo.Interp) {
				if *flagSMTLog != "" && len(runList) == 1 {
					logf, _ = os.Create(*flagSMTLog)
					in.S.Log = logf
				}
			})
			if logf != nil {
				logf.Close()
			}
			if err != nil {
				fmt.Fprintln(os.Stderr, "solver:", err)
				return
			}
			reports[i] = rep
			if *flagVerbose {
				r := rep
				fmt.Fprintf(os.Stderr, "%-40s paths=%d queries=%d solver=%.1fs wall=%.1fs workers=%d failures=%d\n", d.Name, r.Paths, r.Queries, r.SolverTime.Seconds(), r.Wall.Seconds(), r.Workers, len(r.Failures))
			}
		}(i, d)
	}
	wg.Wait()

	out := output{Property: *flagProp, Tier: *flagTier, LoadS: loadT.Seconds(), WallS: time.Since(t0).Seconds()}
	for i, r := range reports {
		if r == nil {
			out.Errors = append(out.Errors, "no report for "+runList[i].Name)
			continue
		}
		out.Harnesses = append(out.Harnesses, summarize(runList[i], r))
	}
	b, _ := json.MarshalIndent(out, "", " ")
	if *flagOut != "" {
		os.WriteFile(*flagOut, b, 0o644)
	} else {
		os.Stdout.Write(b)
		fmt.Println()
	}
	return 0
}

type output struct {
	Property  string        `json:"property"`
	Tier      string        `json:"tier"`
	LoadS     float64       `json:"load_s"`
	WallS     float64       `json:"wall_s"`
	Errors    []string      `json:"errors,omitempty"`
	Harnesses []harnessJSON `json:"harnesses"`
}

type harnessJSON struct {
	Name           string                       `json:"name"`
	Func           string                       `json:"func"`
	Package        string                       `json:"package"`
	File           string                       `json:"file"`
	Native         bool                         `json:"native"`
	Paths          int                          `json:"paths"`
	PathsCompleted int                          `json:"paths_completed"`
	PathsAssumeCut int                          `json:"paths_assume_cut"`
	Branches       int                          `json:"branches"`
	Forks          int                          `json:"forks"`
	Steps          int64                        `json:"steps"`
	Queries        int                          `json:"queries"`
	Sat            int                          `json:"sat"`
	Unsat          int                          `json:"unsat"`
	Unknown        int                          `json:"unknown"`
	SolverS        float64                      `json:"solver_s"`
	WallS          float64                      `json:"wall_s"`
	Terms          int                          `json:"terms"`
	Workers        int                          `json:"workers"`
	Portfolio      int                          `json:"portfolio_queries"`
	PortfolioWins  map[string]int               `json:"portfolio_wins,omitempty"`
	Merges         int                          `json:"if_conversions"`
	PanicChecks    int                          `json:"runtime_checks_decided"`
	PanicSafe      int                          `json:"runtime_checks_unsat"`
	InitNotes      []string                     `json:"init_notes,omitempty"`
	Unwind         int                          `json:"unwind"`
	Params         map[string]int64             `json:"params,omitempty"`
	Failures       []*symgo.Failure             `json:"failures"`
	Obligations    []*symgo.Obligation          `json:"obligations"`
	Covers         map[string]bool              `json:"covers"`
	CoverWitness   map[string]map[string]string `json:"cover_witness,omitempty"`
	CoverMissing   []string                     `json:"cover_missing,omitempty"`
	UnwindFailures []string                     `json:"unwind_failures,omitempty"`
	Unsupported    []string                     `json:"unsupported,omitempty"`
	Unknowns       []string                     `json:"unknowns,omitempty"`
	Incomplete     []string                     `json:"incomplete,omitempty"`
	Funcs          map[string]string            `json:"functions_encoded"`
	Stubs          map[string]int               `json:"stubs_hit"`
	Models         map[string]int               `json:"models_hit"`
	UFs            map[string]int               `json:"ufs_hit"`
	Witnesses      []symgo.PathWitness          `json:"witnesses,omitempty"`
}

func summarize(d *harnessDecl, r *symgo.Report) harnessJSON {
	h := harnessJSON{
		Name: d.Name, Func: d.Func, Package: d.PkgPath, File: d.File, Native: d.Native,
		Paths: r.Paths, PathsCompleted: r.PathsCompleted, PathsAssumeCut: r.PathsAssumeCut,
		Branches: r.Branches, Forks: r.Forks, Steps: r.Steps, Queries: r.Queries, Sat: r.NSat, Unsat: r.NUnsat,
		Unknown: r.NUnknown, SolverS: r.SolverTime.Seconds(), WallS: r.Wall.Seconds(), Terms: r.Terms,
		Unwind: d.Cfg.Unwind, Params: d.Cfg.Params, Workers: r.Workers, Portfolio: r.PortfolioQueries, PortfolioWins: r.PortfolioWins, Merges: r.Merges, PanicChecks: r.PanicChecks, PanicSafe: r.PanicChecksSafe, InitNotes: r.InitNotes,
		Failures: r.Failures, Covers: r.Covers, CoverWitness: r.CoverWitness,
		UnwindFailures: r.UnwindFailures, Unsupported: r.Unsupported, Unknowns: r.Unknowns, Incomplete: r.Incomplete,
		Funcs: r.FuncsExecuted, Stubs: r.StubsHit, Models: r.ModelsHit, UFs: r.UFsHit, Witnesses: r.Witnesses,
	}
	if h.Failures == nil {
		h.Failures = []*symgo.Failure{}
	}
	var keys []string
	for k := range r.Obligations {
		keys = append(keys, k)
	}
	sort.Strings(keys)
	h.Obligations = []*symgo.Obligation{}
	for _, k := range keys {
		h.Obligations = append(h.Obligations, r.Obligations[k])
	}
	for id := range r.CoverDeclared {
		if !r.Covers[id] {
			h.CoverMissing = append(h.CoverMissing, id)
		}
	}
	sort.Strings(h.CoverMissing)
	return h
}

type replayFile struct {
	Property  string            `json:"property"`
	Harness   string            `json:"harness"`
	Kind      string            `json:"kind"`
	ID        string            `json:"id"`
	Site      string            `json:"site"`
	Inputs    map[string]string `json:"inputs"`
	Decisions []int64           `json:"decisions"`
}

func readReplay(path string) (*replayFile, error) {
	b, err := os.ReadFile(path)
	if err != nil {
		return nil, err
	}
	var r replayFile
	if err := json.Unmarshal(b, &r); err != nil {
		return nil, err
	}
	return &r, nil
}

// scanHarnessDir finds harness files, builds the overlay and parses directives textually.
func scanHarnessDir(hdir, repo, prop string) ([]*harnessDecl, map[string][]byte, map[string]bool, error) {
	overlay := map[string][]byte{}
	pkgDirs := map[string]bool{}
	var decls []*harnessDecl
	shim, err := os.ReadFile(filepath.Join(hdir, "sym", "zz_verif_sym.go.tmpl"))
	if err != nil {
		return nil, nil, nil, err
	}
	filepath.Walk(hdir, func(path string, info os.FileInfo, err error) error {
		if err == nil && !info.IsDir() && strings.HasPrefix(info.Name(), "zz_verif_") && strings.HasSuffix(info.Name(), ".go") {
			if src, err := os.ReadFile(path); err == nil {
				collectGroups(string(src))
			}
		}
		return nil
	})
	err = filepath.Walk(hdir, func(path string, info os.FileInfo, err error) error {
		if err != nil {
			return err
		}
		if info.IsDir() || !strings.HasPrefix(info.Name(), "zz_verif_") || !strings.HasSuffix(info.Name(), ".go") {
			return nil
		}
		rel, _ := filepath.Rel(hdir, filepath.Dir(path))
		src, err := os.ReadFile(path)
		if err != nil {
			return err
		}
		ds := parseDirectives(string(src), rel, path)
		has := false
		for _, d := range ds {
			if strings.HasPrefix(d.Name, prop+".") {
				has = true
				decls = append(decls, d)
			}
		}
		if !has && !strings.HasSuffix(info.Name(), "_common.go") {
			return nil
		}
		if strings.HasSuffix(info.Name(), "_test.go") {
			return nil
		}
		overlay[filepath.Join(repo, rel, info.Name())] = src
		if has {
			pkgDirs[rel] = true
		}
		return nil
	})
	if err != nil {
		return nil, nil, nil, err
	}
	// drop common files of packages that have no harness for this property; add the shim
	for p := range overlay {
		rel, _ := filepath.Rel(repo, filepath.Dir(p))
		if !pkgDirs[rel] {
			delete(overlay, p)
		}
	}
	for rel := range pkgDirs {
		pkgName := ""
		for p, src := range overlay {
			r, _ := filepath.Rel(repo, filepath.Dir(p))
			if r == rel {
				pkgName = packageClause(string(src))
				break
			}
		}
		s := strings.Replace(string(shim), "package PKGNAME", "package "+pkgName, 1)
		overlay[filepath.Join(repo, rel, "zz_verif_sym.go")] = []byte(s)
	}
	sort.Slice(decls, func(i, j int) bool { return decls[i].Name < decls[j].Name })
	return decls, overlay, pkgDirs, nil
}

func packageClause(src string) string {
	for _, line := range strings.Split(src, "\n") {
		line = strings.TrimSpace(line)
		if strings.HasPrefix(line, "package ") {
			return strings.Fields(line)[1]
		}
	}
	return ""
}

var reFunc = regexp.MustCompile(`^func\s+([A-Za-z0-9_]+)\s*\(`)

var groups = map[string][]string{}

func collectGroups(src string) {
	var block []string
	name := ""
	for _, line := range strings.Split(src, "\n") {
		if strings.HasPrefix(line, "//verif:group ") {
			name = strings.TrimSpace(strings.TrimPrefix(line, "//verif:group "))
			block = nil
			continue
		}
		if strings.HasPrefix(line, "//verif:") {
			block = append(block, line)
			continue
		}
		if name != "" && !strings.HasPrefix(line, "//") {
			groups[name] = block
			name = ""
			block = nil
		}
	}
}

func expandUses(block []string, depth int) []string {
	var out []string
	for _, l := range block {
		if strings.HasPrefix(l, "//verif:use ") && depth < 5 {
			for _, g := range strings.Fields(strings.TrimPrefix(l, "//verif:use ")) {
				out = append(out, expandUses(groups[g], depth+1)...)
			}
			continue
		}
		out = append(out, l)
	}
	return out
}

func parseDirectives(src, rel, path string) []*harnessDecl {
	var out []*harnessDecl
	lines := strings.Split(src, "\n")
	var block []string
	for _, line := range lines {
		if strings.HasPrefix(line, "//verif:") {
			block = append(block, line)
			continue
		}
		if m := reFunc.FindStringSubmatch(line); m != nil && len(block) > 0 {
			d := buildDecl(expandUses(block, 0), m[1], rel, path)
			if d != nil {
				out = append(out, d)
			}
			block = nil
			continue
		}
		if strings.HasPrefix(line, "//") {
			continue
		}
		block = nil
	}
	return out
}

func buildDecl(block []string, fn, rel, path string) *harnessDecl {
	d := &harnessDecl{Func: fn, PkgDir: rel, Tier: "both", ModelFns: map[string]string{}, ParamsQ: map[string]int64{}, ParamsT: map[string]int64{}, File: path}
	d.Cfg.Stubs = map[string]symgo.StubKind{}
	d.Cfg.Nilable = map[string]bool{}
	d.Cfg.UFs = map[string]symgo.UFCfg{}
	for _, line := range block {
		body := strings.TrimPrefix(line, "//verif:")
		fields := strings.Fields(body)
		if len(fields) == 0 {
			continue
		}
		head := fields[0]
		rest := fields[1:]
		switch {
		case head == "harness":
			if len(rest) == 0 {
				continue
			}
			d.Name = rest[0]
			for _, kv := range rest[1:] {
				p := strings.SplitN(kv, "=", 2)
				if len(p) != 2 {
					if kv == "native" {
						d.Native = true
					}
					if kv == "noassumecheck" {
						d.Cfg.NoAssumeCheck = true
					}
					continue
				}
				val := p[1]
				if qt := strings.SplitN(val, "/", 2); len(qt) == 2 { // quick/thorough pair
					val = qt[0]
					if *flagTier == "thorough" {
						val = qt[1]
					}
				}
				n, _ := strconv.Atoi(val)
				switch p[0] {
				case "unwind":
					d.Cfg.Unwind = n
				case "maxpaths":
					d.Cfg.MaxPaths = n
				case "timeout":
					d.Cfg.TimeoutS = n
				case "steps":
					d.Cfg.MaxSteps = n
				case "wall":
					d.Cfg.WallS = n
				case "havocmax":
					d.Cfg.HavocMax = n
				case "tier":
					d.Tier = p[1]
				}
			}
		case head == "exec":
			d.Cfg.Exec = append(d.Cfg.Exec, rest...)
		case strings.HasPrefix(head, "stub"):
			if len(rest) < 2 {
				continue
			}
			kinds := strings.Split(rest[0], ",")
			var k symgo.StubKind
			switch kinds[0] {
			case "havoc":
				k = symgo.StubHavoc
			case "noop":
				k = symgo.StubNoop
			case "attr":
				k = symgo.StubAttr
			}
			for _, n := range rest[1:] {
				d.Cfg.Stubs[n] = k
				if len(kinds) > 1 && kinds[1] == "nilable" {
					d.Cfg.Nilable[n] = true
				}
			}
		case head == "model":
			// name = func
			if len(rest) == 3 && rest[1] == "=" {
				d.ModelFns[rest[0]] = rest[2]
			}
		case strings.HasPrefix(head, "uf"):
			inj := strings.Contains(head, "injective")
			as := ""
			for _, opt := range strings.Split(head, ",") {
				if strings.HasPrefix(opt, "as=") {
					as = strings.TrimPrefix(opt, "as=")
				}
			}
			for _, n := range rest {
				d.Cfg.UFs[n] = symgo.UFCfg{Injective: inj, As: as}
			}
		case head == "go":
			if len(rest) == 1 {
				d.Cfg.GoPolicy = rest[0]
			} else if len(rest) >= 2 {
				d.Cfg.GoRules = append(d.Cfg.GoRules, [2]string{rest[1], rest[0]})
			}
		case head == "ctx":
			if len(rest) > 0 {
				d.Cfg.CtxPolicy = rest[0]
			}
		case head == "noinit":
			d.Cfg.NoInit = append(d.Cfg.NoInit, rest...)
		case head == "init":
			d.Cfg.InitPkgs = append(d.Cfg.InitPkgs, rest...)
		case head == "param":
			for _, kv := range rest {
				p := strings.SplitN(kv, "=", 2)
				if len(p) != 2 {
					continue
				}
				qt := strings.SplitN(p[1], "/", 2)
				q, _ := strconv.ParseInt(qt[0], 10, 64)
				t := q
				if len(qt) == 2 {
					t, _ = strconv.ParseInt(qt[1], 10, 64)
				}
				d.ParamsQ[p[0]] = q
				d.ParamsT[p[0]] = t
			}
		}
	}
	if d.Name == "" {
		return nil
	}
	return d
}
