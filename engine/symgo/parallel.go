package symgo

import (
	"fmt"
	"sort"
	"sync"
	"time"

	"golang.org/x/tools/go/ssa"
)

// Pool bounds the number of solver processes running at once across all harnesses.
type Pool struct{ slots chan struct{} }

func NewPool(n int) *Pool { return &Pool{slots: make(chan struct{}, n)} }

func (p *Pool) acquire() { p.slots <- struct{}{} }
func (p *Pool) tryAcquire() bool {
	select {
	case p.slots <- struct{}{}:
		return true
	default:
		return false
	}
}
func (p *Pool) release() { <-p.slots }

type explorer struct {
	mu       sync.Mutex
	cond     *sync.Cond
	work     [][]int64
	active   int
	paths    int
	stop     string
	deadline time.Time
}

// RunHarness explores the harness with as many workers as the pool allows (work stealing over
// decision prefixes; every worker has its own term context and solver process).
func RunHarness(prog *ssa.Program, cfg *Config, pool *Pool, onInterp func(*Interp)) (*Report, error) {
	t0 := time.Now()
	probe, err := NewInterp(prog, cfg) // normalises cfg defaults
	if err != nil {
		return nil, err
	}
	ex := &explorer{work: [][]int64{nil}}
	if cfg.PinChoice != nil {
		ex.work = [][]int64{cfg.PinChoice}
	}
	ex.cond = sync.NewCond(&ex.mu)
	ex.deadline = t0.Add(time.Duration(cfg.WallS) * time.Second)
	var reports []*Report
	var rmu sync.Mutex
	var wg sync.WaitGroup
	var crash interface{}
	worker := func(in *Interp) {
		defer wg.Done()
		defer pool.release()
		defer in.Close()
		defer func() {
			if r := recover(); r != nil {
				rmu.Lock()
				crash = r
				in.Rep.Unsupported = append(in.Rep.Unsupported, fmt.Sprintf("engine crash: %v", r))
				rmu.Unlock()
				ex.mu.Lock()
				ex.active--
				ex.stop = "engine crash"
				ex.cond.Broadcast()
				ex.mu.Unlock()
			}
			in.finishReport()
			rmu.Lock()
			reports = append(reports, in.Rep)
			rmu.Unlock()
		}()
		in.deadline = ex.deadline
		for {
			ex.mu.Lock()
			for len(ex.work) == 0 && ex.active > 0 && ex.stop == "" {
				ex.cond.Wait()
			}
			if ex.stop != "" || len(ex.work) == 0 {
				ex.mu.Unlock()
				return
			}
			if time.Now().After(ex.deadline) {
				ex.stop = fmt.Sprintf("wall budget %ds exhausted after %d paths with %d work items left", cfg.WallS, ex.paths, len(ex.work))
				ex.cond.Broadcast()
				ex.mu.Unlock()
				return
			}
			if ex.paths >= cfg.MaxPaths {
				ex.stop = fmt.Sprintf("maxpaths %d reached with %d work items left", cfg.MaxPaths, len(ex.work))
				ex.cond.Broadcast()
				ex.mu.Unlock()
				return
			}
			n := len(ex.work) - 1
			prefix := ex.work[n]
			ex.work = ex.work[:n]
			ex.active++
			ex.paths++
			ex.mu.Unlock()

			in.work = nil
			in.runPath(prefix)

			ex.mu.Lock()
			ex.work = append(ex.work, in.work...)
			ex.active--
			ex.cond.Broadcast()
			ex.mu.Unlock()
		}
	}
	// first worker
	pool.acquire()
	wg.Add(1)
	if onInterp != nil {
		onInterp(probe)
	}
	go worker(probe)
	// spawner: add workers while there is queued work and free slots
	done := make(chan struct{})
	go func() {
		tick := time.NewTicker(200 * time.Millisecond)
		defer tick.Stop()
		for {
			select {
			case <-done:
				return
			case <-tick.C:
				ex.mu.Lock()
				pending := len(ex.work)
				stopped := ex.stop != ""
				ex.mu.Unlock()
				if stopped || pending < 2 || cfg.PinChoice != nil {
					continue
				}
				for i := 0; i < pending-1; i++ {
					if !pool.tryAcquire() {
						break
					}
					in, err := NewInterp(prog, cfg)
					if err != nil {
						pool.release()
						break
					}
					wg.Add(1)
					go worker(in)
				}
			}
		}
	}()
	wg.Wait()
	close(done)
	if crash != nil && Debug {
		panic(crash)
	}
	rep := mergeReports(reports)
	rep.Harness = cfg.Name
	if ex.stop != "" {
		rep.Incomplete = appendUniq(rep.Incomplete, ex.stop)
	}
	rep.Wall = time.Since(t0)
	rep.Workers = len(reports)
	return rep, nil
}

func (in *Interp) finishReport() {
	in.Rep.Queries = in.S.Queries
	in.Rep.NSat = in.S.NSat
	in.Rep.NUnsat = in.S.NUnsat
	in.Rep.NUnknown = in.S.NUnknown
	in.Rep.SolverTime = in.S.Time
	in.Rep.Terms = in.C.NumTerms()
}

func mergeReports(rs []*Report) *Report {
	out := &Report{
		Obligations:   map[string]*Obligation{},
		Covers:        map[string]bool{},
		CoverWitness:  map[string]map[string]string{},
		CoverDeclared: map[string]bool{},
		FuncsExecuted: map[string]string{},
		StubsHit:      map[string]int{},
		ModelsHit:     map[string]int{},
		UFsHit:        map[string]int{},
	}
	for _, r := range rs {
		out.Paths += r.Paths
		out.PathsCompleted += r.PathsCompleted
		out.PathsAssumeCut += r.PathsAssumeCut
		out.Branches += r.Branches
		out.Forks += r.Forks
		out.Merges += r.Merges
		out.PanicChecks += r.PanicChecks
		out.PanicChecksSafe += r.PanicChecksSafe
		out.Steps += r.Steps
		out.Queries += r.Queries
		out.NSat += r.NSat
		out.NUnsat += r.NUnsat
		out.NUnknown += r.NUnknown
		out.SolverTime += r.SolverTime + r.PortfolioTime
		out.PortfolioQueries += r.PortfolioQueries
		for k, v := range r.PortfolioWins {
			if out.PortfolioWins == nil {
				out.PortfolioWins = map[string]int{}
			}
			out.PortfolioWins[k] += v
		}
		out.Terms += r.Terms
		for _, f := range r.Failures {
			dup := false
			for _, g := range out.Failures {
				if g.Kind == f.Kind && g.ID == f.ID && g.Site == f.Site {
					dup = true
				}
			}
			if !dup {
				out.Failures = append(out.Failures, f)
			}
		}
		for k, o := range r.Obligations {
			t := out.Obligations[k]
			if t == nil {
				t = &Obligation{ID: o.ID, Site: o.Site}
				out.Obligations[k] = t
			}
			t.Reached += o.Reached
			t.Proved += o.Proved
			t.CrossAgreed += o.CrossAgreed
			t.CrossSkip += o.CrossSkip
			t.Failed += o.Failed
			t.Unknown += o.Unknown
		}
		for k := range r.CoverDeclared {
			out.CoverDeclared[k] = true
		}
		for k, v := range r.Covers {
			if v && !out.Covers[k] {
				out.Covers[k] = true
				out.CoverWitness[k] = r.CoverWitness[k]
			}
		}
		for k, v := range r.FuncsExecuted {
			out.FuncsExecuted[k] = v
		}
		for k, v := range r.StubsHit {
			out.StubsHit[k] += v
		}
		for k, v := range r.ModelsHit {
			out.ModelsHit[k] += v
		}
		for k, v := range r.UFsHit {
			out.UFsHit[k] += v
		}
		for _, s := range r.UnwindFailures {
			out.UnwindFailures = appendUniq(out.UnwindFailures, s)
		}
		for _, s := range r.Unsupported {
			out.Unsupported = appendUniq(out.Unsupported, s)
		}
		for _, s := range r.Unknowns {
			out.Unknowns = appendUniq(out.Unknowns, s)
		}
		for _, s := range r.Incomplete {
			out.Incomplete = appendUniq(out.Incomplete, s)
		}
		for _, s := range r.InitNotes {
			out.InitNotes = appendUniq(out.InitNotes, s)
		}
	}
	sort.Slice(out.Failures, func(i, j int) bool {
		a, b := out.Failures[i], out.Failures[j]
		if a.ID != b.ID {
			return a.ID < b.ID
		}
		return a.Site < b.Site
	})
	return out
}
