package symgo

import (
	"verif/engine/smt"
)

// ArrayTerm is a functional array of BV elements indexed by 64-bit terms.
// Reads are expanded to ite chains over Store/Copy nodes; SMT select only at Base.
type ArrayTerm interface {
	Read(c *smt.Ctx, idx *smt.Term) *smt.Term
	ElemW() int
}

const maxCells = 1 << 16

type cellsArr struct {
	cells []*smt.Term
	w     int
}

type zeroArr struct{ w int }

type baseArr struct {
	sym *smt.Term
	w   int
}

type storeArr struct {
	parent ArrayTerm
	idx    *smt.Term
	val    *smt.Term
}

type copyArr struct {
	dst  ArrayTerm
	dOff *smt.Term
	src  ArrayTerm
	sOff *smt.Term
	n    *smt.Term
}

func (a *cellsArr) ElemW() int { return a.w }
func (a *zeroArr) ElemW() int  { return a.w }
func (a *baseArr) ElemW() int  { return a.w }
func (a *storeArr) ElemW() int { return a.parent.ElemW() }
func (a *copyArr) ElemW() int  { return a.dst.ElemW() }

func (a *cellsArr) Read(c *smt.Ctx, idx *smt.Term) *smt.Term {
	if idx.IsConst() {
		i := idx.Uint64()
		if i < uint64(len(a.cells)) {
			return a.cells[i]
		}
		return c.BV(a.w, 0)
	}
	// ite chain (from the last cell backwards)
	r := c.BV(a.w, 0)
	for i := len(a.cells) - 1; i >= 0; i-- {
		r = c.Ite(c.Eq(idx, c.BV(64, uint64(i))), a.cells[i], r)
	}
	return r
}

func (a *zeroArr) Read(c *smt.Ctx, idx *smt.Term) *smt.Term { return c.BV(a.w, 0) }

func (a *baseArr) Read(c *smt.Ctx, idx *smt.Term) *smt.Term { return c.Select(a.sym, idx) }

func (a *storeArr) Read(c *smt.Ctx, idx *smt.Term) *smt.Term {
	eq := c.Eq(idx, a.idx)
	if eq.IsTrue() {
		return a.val
	}
	if eq.IsFalse() {
		return a.parent.Read(c, idx)
	}
	return c.Ite(eq, a.val, a.parent.Read(c, idx))
}

func (a *copyArr) Read(c *smt.Ctx, idx *smt.Term) *smt.Term {
	// dOff <= idx < dOff+n   (unsigned, no wrap: offsets and lengths are < 2^63)
	rel := c.BVSub(idx, a.dOff)
	in := c.And(c.Ule(a.dOff, idx), c.Ult(rel, a.n))
	if in.IsFalse() {
		return a.dst.Read(c, idx)
	}
	sv := a.src.Read(c, c.BVAdd(rel, a.sOff))
	if in.IsTrue() {
		return sv
	}
	return c.Ite(in, sv, a.dst.Read(c, idx))
}

func newCells(c *smt.Ctx, n int, w int) *cellsArr {
	cells := make([]*smt.Term, n)
	z := c.BV(w, 0)
	for i := range cells {
		cells[i] = z
	}
	return &cellsArr{cells: cells, w: w}
}

// arrWrite returns the array with element idx replaced.
func arrWrite(c *smt.Ctx, a ArrayTerm, idx, val *smt.Term) ArrayTerm {
	if ca, ok := a.(*cellsArr); ok && idx.IsConst() {
		i := idx.Uint64()
		if i < uint64(len(ca.cells)) {
			nc := make([]*smt.Term, len(ca.cells))
			copy(nc, ca.cells)
			nc[i] = val
			return &cellsArr{cells: nc, w: ca.w}
		}
		return a
	}
	return &storeArr{parent: a, idx: idx, val: val}
}

// arrCopy returns dst with n elements copied from src[sOff:] to dst[dOff:].
func arrCopy(c *smt.Ctx, dst ArrayTerm, dOff *smt.Term, src ArrayTerm, sOff, n *smt.Term) ArrayTerm {
	if n.IsConst() && n.Uint64() == 0 {
		return dst
	}
	if ca, ok := dst.(*cellsArr); ok && n.IsConst() && dOff.IsConst() && n.Uint64() <= maxCells {
		d := dOff.Uint64()
		cnt := n.Uint64()
		if d+cnt <= uint64(len(ca.cells)) {
			nc := make([]*smt.Term, len(ca.cells))
			copy(nc, ca.cells)
			for k := uint64(0); k < cnt; k++ {
				nc[d+k] = src.Read(c, c.BVAdd(sOff, c.BV(64, k)))
			}
			return &cellsArr{cells: nc, w: ca.w}
		}
	}
	return &copyArr{dst: dst, dOff: dOff, src: src, sOff: sOff, n: n}
}
