package symgo

import (
	"fmt"
	"go/constant"
	"go/token"
	"go/types"
	"math/big"
	"strings"

	"golang.org/x/tools/go/ssa"

	"verif/engine/smt"
)

const maxDepth = 400

func (in *Interp) fname(fn *ssa.Function) string {
	if s, ok := in.fnName[fn]; ok {
		return s
	}
	s := fn.String()
	in.fnName[fn] = s
	return s
}

// call runs an SSA function body.
func (in *Interp) call(fn *ssa.Function, args []Value, binds []Value, site string) (ret Value) {
	if fn.Blocks == nil {
		in.unsupported("function without body: %s", fn.String())
	}
	if in.depth > maxDepth {
		in.unsupported("call depth exceeds %d at %s", maxDepth, fn.String())
	}
	in.depth++
	fr := &frame{fn: fn, env: make(map[ssa.Value]Value, 32), callSite: site}
	if len(args) != len(fn.Params) {
		in.unsupported("internal: %s called with %d args, want %d", fn.String(), len(args), len(fn.Params))
	}
	for i, p := range fn.Params {
		fr.env[p] = args[i]
	}
	for i, fv := range fn.FreeVars {
		fr.env[fv] = binds[i]
	}
	if _, ok := in.Rep.FuncsExecuted[in.fname(fn)]; !ok {
		pos := ""
		if fn.Pos().IsValid() {
			p := in.Prog.Fset.Position(fn.Pos())
			pos = fmt.Sprintf("%s:%d", p.Filename, p.Line)
		}
		in.Rep.FuncsExecuted[in.fname(fn)] = pos
	}
	in.frames = append(in.frames, fr)
	nframes := len(in.frames)
	defer func() {
		in.depth--
		r := recover()
		if r == nil {
			in.frames = in.frames[:nframes-1]
			return
		}
		gp, ok := r.(*goPanic)
		if !ok {
			panic(r)
		}
		in.frames = in.frames[:nframes]
		fr.panicking = gp
		in.runDefers(fr)
		in.frames = in.frames[:nframes-1]
		if fr.panicking != nil {
			panic(fr.panicking)
		}
		// recovered
		if fn.Recover != nil {
			in.frames = append(in.frames, fr)
			ret = in.runBlocks(fr, fn.Recover)
			in.frames = in.frames[:nframes-1]
		} else {
			ret = in.zeroResults(fn.Signature)
		}
	}()
	return in.runBlocks(fr, fn.Blocks[0])
}

func (in *Interp) zeroResults(sig *types.Signature) Value {
	res := sig.Results()
	switch res.Len() {
	case 0:
		return nil
	case 1:
		return in.zero(res.At(0).Type())
	}
	return in.zero(res)
}

func (in *Interp) runDefers(fr *frame) {
	for len(fr.defers) > 0 {
		d := fr.defers[len(fr.defers)-1]
		fr.defers = fr.defers[:len(fr.defers)-1]
		in.panicFrs = append(in.panicFrs, fr)
		func() {
			defer func() { in.panicFrs = in.panicFrs[:len(in.panicFrs)-1] }()
			in.invoke(d.fn, d.args, d.call, nil)
		}()
	}
}

func (in *Interp) get(fr *frame, v ssa.Value) Value {
	switch x := v.(type) {
	case *ssa.Const:
		return in.constVal(x)
	case *ssa.Global:
		return Ptr{Obj: in.globalObj(x)}
	case *ssa.Function:
		return Func{Fn: x}
	case *ssa.Builtin:
		return Func{B: x}
	}
	val, ok := fr.env[v]
	if !ok {
		in.unsupported("internal: value %s (%T) not in env", v.Name(), v)
	}
	return val
}

func (in *Interp) constVal(c *ssa.Const) Value {
	t := c.Type()
	if c.Value == nil {
		return in.zero(t)
	}
	if tp, ok := t.(*types.TypeParam); ok {
		in.unsupported("constant of type parameter %s", tp)
	}
	u := t.Underlying()
	if b, ok := u.(*types.Basic); ok {
		if w, _, ok := intWidth(b); ok {
			v := constant.ToInt(c.Value)
			bi, _ := new(big.Int).SetString(v.ExactString(), 10)
			if bi == nil {
				in.unsupported("constant %s", c.Value.ExactString())
			}
			return BV{in.C.BVBig(w, bi)}
		}
		if isBool(b) {
			return BV{in.C.Bool(constant.BoolVal(c.Value))}
		}
		if isString(b) {
			return in.constStr(constant.StringVal(c.Value))
		}
		if isFloat(b) {
			f, _ := constant.Float64Val(c.Value)
			return Float{V: f}
		}
	}
	in.unsupported("constant of type %s", t)
	return nil
}

func (in *Interp) globalObj(g *ssa.Global) int {
	if id, ok := in.globals[g]; ok {
		return id
	}
	et := g.Type().(*types.Pointer).Elem()
	var v Value
	// error-typed globals get distinct opaque non-nil identities unless initialised by harness
	if isInterface(et) && types.Implements(et, errorIface()) && et.String() == "error" {
		v = in.newOpaqueErr("global:" + g.String())
	} else {
		v = in.zero(et)
	}
	id := in.newObj(v, et)
	in.globals[g] = id
	if g.Pkg != nil && !in.initDone[g.Pkg] && in.shouldInit(g.Pkg) {
		in.initDone[g.Pkg] = true
		in.runPkgInit(g.Pkg)
	}
	return id
}

// Packages whose initialisers only precompute hash tables (zero hashes): never run.
var defaultNoInit = []string{
	"github.com/protolambda/ztyp/tree",
	"github.com/protolambda/zrnt/eth2/util/merkle",
	"github.com/ferranbt/fastssz",
}

func (in *Interp) shouldInit(p *ssa.Package) bool {
	path := p.Pkg.Path()
	for _, n := range defaultNoInit {
		if n == path {
			return false
		}
	}
	for _, n := range in.Cfg.NoInit {
		if n == path {
			return false
		}
	}
	for e := range in.execOK {
		if path == e || strings.HasPrefix(path, e+"/") {
			return true
		}
	}
	return false
}

// runPkgInit executes the package's own initialisers (dependency inits are skipped, unknown
// calls yield zero values). A failure inside init leaves the remaining globals zero.
func (in *Interp) runPkgInit(p *ssa.Package) {
	p.Build()
	initFn := p.Func("init")
	if initFn == nil || initFn.Blocks == nil {
		return
	}
	in.lenient++
	savedFrames := in.frames
	savedDepth := in.depth
	defer func() {
		in.lenient--
		if r := recover(); r != nil {
			in.frames = savedFrames
			in.depth = savedDepth
			switch e := r.(type) {
			case *pathEnd:
				in.Rep.InitNotes = appendUniq(in.Rep.InitNotes, p.Pkg.Path()+": init stopped: "+e.reason+" "+e.msg)
			case *goPanic:
				in.Rep.InitNotes = appendUniq(in.Rep.InitNotes, p.Pkg.Path()+": init panicked: "+e.kind)
			default:
				panic(r)
			}
		}
	}()
	in.call(initFn, nil, nil, "init")
}

var errIfaceCache *types.Interface

func errorIface() *types.Interface {
	if errIfaceCache == nil {
		errIfaceCache = types.Universe.Lookup("error").Type().Underlying().(*types.Interface)
	}
	return errIfaceCache
}

func (in *Interp) newOpaqueErr(what string) Value {
	id, ok := in.errIDs[what]
	if !ok {
		in.opaqueSeq++
		id = in.opaqueSeq
		in.errIDs[what] = id
	}
	return Iface{T: opaqueErrType, V: Opaque{ID: id, Kind: "error:" + what}}
}

var opaqueErrType = types.NewNamed(types.NewTypeName(token.NoPos, nil, "verifOpaqueError", nil), types.NewStruct(nil, nil), nil)

func (in *Interp) runBlocks(fr *frame, b *ssa.BasicBlock) Value {
	var prev *ssa.BasicBlock
	phisDone := false
	for {
		// phis first (parallel assignment)
		nphi := 0
		var phiVals []Value
		for _, instr := range b.Instrs {
			phi, ok := instr.(*ssa.Phi)
			if !ok {
				break
			}
			nphi++
			if phisDone {
				continue
			}
			idx := -1
			for i, p := range b.Preds {
				if p == prev {
					idx = i
					break
				}
			}
			if idx < 0 {
				in.unsupported("internal: phi without matching predecessor")
			}
			phiVals = append(phiVals, in.get(fr, phi.Edges[idx]))
		}
		if !phisDone {
			for i := 0; i < nphi; i++ {
				fr.env[b.Instrs[i].(*ssa.Phi)] = phiVals[i]
			}
		}
		phisDone = false
		var next *ssa.BasicBlock
		for _, instr := range b.Instrs[nphi:] {
			in.steps++
			fr.cur = instr
			if in.steps > int64(in.Cfg.MaxSteps) {
				panic(&pathEnd{reason: "budget", msg: fmt.Sprintf("step budget %d exceeded in %s", in.Cfg.MaxSteps, fr.fn.String())})
			}
			switch i := instr.(type) {
			case *ssa.If:
				cond := in.get(fr, i.Cond).(BV).T
				if !cond.IsConst() {
					if j, ok := in.tryMerge(fr, b, cond); ok {
						next = j
						phisDone = true
						break
					}
					if fr.symIfs == nil {
						fr.symIfs = map[ssa.Instruction]int{}
					}
					fr.symIfs[i]++
					if fr.symIfs[i] > in.Cfg.Unwind {
						pos := in.Prog.Fset.Position(i.Pos())
						panic(&pathEnd{reason: "unwind", msg: fmt.Sprintf("unwind %d exceeded at %s (%s:%d)", in.Cfg.Unwind, fr.fn.String(), pos.Filename, pos.Line)})
					}
				}
				if in.branch(cond) {
					next = b.Succs[0]
				} else {
					next = b.Succs[1]
				}
			case *ssa.Jump:
				next = b.Succs[0]
			case *ssa.Return:
				switch len(i.Results) {
				case 0:
					return nil
				case 1:
					return in.get(fr, i.Results[0])
				}
				tv := make(Tuple, len(i.Results))
				for k, r := range i.Results {
					tv[k] = in.get(fr, r)
				}
				return tv
			case *ssa.Panic:
				v := in.get(fr, i.X)
				in.raise("explicit", v)
			default:
				in.execInstr(fr, instr)
			}
		}
		if next == nil {
			in.unsupported("internal: block without terminator in %s", fr.fn.String())
		}
		prev, b = b, next
	}
}

func (in *Interp) execInstr(fr *frame, instr ssa.Instruction) {
	switch i := instr.(type) {
	case *ssa.DebugRef:
	case *ssa.Alloc:
		et := i.Type().(*types.Pointer).Elem()
		obj := in.newObj(in.zero(et), et)
		fr.env[i] = Ptr{Obj: obj}
	case *ssa.BinOp:
		fr.env[i] = in.binop(i.Op, in.get(fr, i.X), in.get(fr, i.Y), i.X.Type(), i.Y.Type())
	case *ssa.UnOp:
		fr.env[i] = in.unop(fr, i)
	case *ssa.Call:
		fr.env[i] = in.doCall(fr, &i.Call, i)
	case *ssa.ChangeInterface:
		fr.env[i] = in.get(fr, i.X)
	case *ssa.ChangeType:
		fr.env[i] = in.get(fr, i.X)
	case *ssa.Convert:
		fr.env[i] = in.convert(in.get(fr, i.X), i.X.Type(), i.Type())
	case *ssa.MultiConvert:
		fr.env[i] = in.convert(in.get(fr, i.X), i.X.Type(), i.Type())
	case *ssa.Extract:
		fr.env[i] = in.get(fr, i.Tuple).(Tuple)[i.Index]
	case *ssa.Field:
		fr.env[i] = in.get(fr, i.X).(Struct).F[i.Field]
	case *ssa.FieldAddr:
		p := in.get(fr, i.X).(Ptr)
		if p.Obj == 0 {
			in.raise("nil pointer dereference", nil)
		}
		fr.env[i] = p.Extend(Sel{Field: i.Field})
	case *ssa.Index:
		x := in.get(fr, i.X)
		idx := in.toIdx(in.get(fr, i.Index), i.Index.Type())
		switch a := x.(type) {
		case Array:
			in.checkOK(in.C.Ult(idx, in.u64(uint64(len(a.Cells)))), "index out of range")
			fr.env[i] = a.Cells[in.concretize(idx, "array index")]
		case SArray:
			in.checkOK(in.C.Ult(idx, a.N), "index out of range")
			fr.env[i] = BV{a.A.Read(in.C, idx)}
		case Str:
			in.checkOK(in.C.Ult(idx, a.Len), "index out of range")
			fr.env[i] = BV{a.A.Read(in.C, in.C.BVAdd(a.Off, idx))}
		default:
			in.unsupported("Index on %s", describe(x))
		}
	case *ssa.IndexAddr:
		x := in.get(fr, i.X)
		idx := in.toIdx(in.get(fr, i.Index), i.Index.Type())
		switch a := x.(type) {
		case Slice:
			in.checkOK(in.C.Ult(idx, a.Len), "index out of range")
			fr.env[i] = a.Base.Extend(Sel{Idx: in.C.BVAdd(a.Off, idx)})
		case Ptr:
			if a.Obj == 0 {
				in.raise("nil pointer dereference", nil)
			}
			at := i.X.Type().Underlying().(*types.Pointer).Elem().Underlying().(*types.Array)
			in.checkOK(in.C.Ult(idx, in.u64(uint64(at.Len()))), "index out of range")
			fr.env[i] = a.Extend(Sel{Idx: idx})
		default:
			in.unsupported("IndexAddr on %s", describe(x))
		}
	case *ssa.Lookup:
		x := in.get(fr, i.X)
		switch m := x.(type) {
		case Str:
			idx := in.toIdx(in.get(fr, i.Index), i.Index.Type())
			in.checkOK(in.C.Ult(idx, m.Len), "index out of range")
			fr.env[i] = BV{m.A.Read(in.C, in.C.BVAdd(m.Off, idx))}
		case MapV:
			mt := i.X.Type().Underlying().(*types.Map)
			v, ok := in.mapLookup(m, in.get(fr, i.Index), mt.Elem())
			if i.CommaOk {
				fr.env[i] = Tuple{v, BV{ok}}
			} else {
				fr.env[i] = v
			}
		default:
			in.unsupported("Lookup on %s", describe(x))
		}
	case *ssa.MakeClosure:
		binds := make([]Value, len(i.Bindings))
		for k, b := range i.Bindings {
			binds[k] = in.get(fr, b)
		}
		fr.env[i] = Func{Fn: i.Fn.(*ssa.Function), Binds: binds}
	case *ssa.MakeInterface:
		fr.env[i] = Iface{T: i.X.Type(), V: in.get(fr, i.X)}
	case *ssa.MakeMap:
		mt := i.Type().Underlying().(*types.Map)
		obj := in.newObj(&mapState{kt: mt.Key(), vt: mt.Elem()}, i.Type())
		fr.env[i] = MapV{Obj: obj}
	case *ssa.MakeChan:
		n := in.concretize(in.toIdx(in.get(fr, i.Size), i.Size.Type()), "chan size")
		obj := in.newObj(&chanState{cap: int(n)}, i.Type())
		fr.env[i] = ChanV{Obj: obj}
	case *ssa.MakeSlice:
		st := i.Type().Underlying().(*types.Slice)
		n := in.toIdx(in.get(fr, i.Len), i.Len.Type())
		cp := in.toIdx(in.get(fr, i.Cap), i.Cap.Type())
		in.checkOK(in.C.And(in.C.Sge(n, in.u64(0)), in.C.Ule(n, cp), in.C.Ult(cp, in.u64(1<<48))), "makeslice: len out of range")
		if w, ok := scalarElem(st.Elem()); ok {
			fr.env[i] = in.newScalarSlice(st.Elem(), w, n, cp)
		} else {
			if !n.IsConst() && cp == n && !in.branch(in.C.Ule(n, in.u64(partialMakeLimit))) {
				// a long slice of symbolic length: materialise a prefix only (see Array.Partial)
				s := in.newGenericSlice(st.Elem(), partialMakeLimit+1, partialMakeLimit+1)
				o := in.heap[s.Base.Obj]
				a := o.V.(Array)
				a.Partial = true
				o.V = a
				s.Len, s.Cap = n, cp
				fr.env[i] = s
				break
			}
			cn := in.concretize(cp, "make cap")
			ln := in.concretize(n, "make len")
			fr.env[i] = in.newGenericSlice(st.Elem(), int(ln), int(cn))
		}
	case *ssa.MapUpdate:
		in.mapUpdate(in.get(fr, i.Map).(MapV), in.get(fr, i.Key), in.get(fr, i.Value))
	case *ssa.Range:
		fr.env[i] = in.makeRange(in.get(fr, i.X))
	case *ssa.Next:
		fr.env[i] = in.iterNext(in.get(fr, i.Iter).(IterV), i)
	case *ssa.Select:
		fr.env[i] = in.execSelect(fr, i)
	case *ssa.Send:
		in.chanSend(in.get(fr, i.Chan).(ChanV), in.get(fr, i.X))
	case *ssa.Slice:
		fr.env[i] = in.sliceOp(fr, i)
	case *ssa.SliceToArrayPointer:
		s := in.get(fr, i.X).(Slice)
		at := i.Type().Underlying().(*types.Pointer).Elem().Underlying().(*types.Array)
		in.checkOK(in.C.Ule(in.u64(uint64(at.Len())), s.Len), "slice to array pointer: length too short")
		if at.Len() == 0 && s.Base.Obj == 0 {
			fr.env[i] = Ptr{}
			break
		}
		// pointer to a window of the backing array: only offset 0 windows of equal size are direct
		fr.env[i] = in.arrayWindowPtr(s, at)
	case *ssa.Store:
		in.store(in.get(fr, i.Addr).(Ptr), in.get(fr, i.Val))
	case *ssa.TypeAssert:
		fr.env[i] = in.typeAssert(in.get(fr, i.X), i)
	case *ssa.Go:
		in.spawn(fr, &i.Call)
	case *ssa.Defer:
		fn, args := in.prepareCall(fr, &i.Call)
		fr.defers = append(fr.defers, deferred{fn: fn, args: args, call: &i.Call})
	case *ssa.RunDefers:
		in.runDefers(fr)
	default:
		in.unsupported("instruction %T", instr)
	}
}

// partialMakeLimit: make([]T, n) for non-scalar T with symbolic n enumerates n up to this value and
// keeps one more path for all larger n with a partially materialised backing array.
const partialMakeLimit = 64

// toIdx converts an integer value to a 64-bit term (sign/zero extension per type).
func (in *Interp) toIdx(v Value, t types.Type) *smt.Term {
	bv, ok := v.(BV)
	if !ok {
		in.unsupported("index is %s", describe(v))
	}
	w, signed, ok := intWidth(t)
	if !ok {
		in.unsupported("index type %s", t)
	}
	_ = w
	return in.C.Resize(bv.T, 64, signed)
}

// arrayWindowPtr returns a pointer usable as *[N]T onto a slice's storage. When the window
// coincides with an existing array location it is exact; otherwise a copy-on-read view is not
// expressible, so a fresh array object aliasing is approximated only for offset-0 full windows.
func (in *Interp) arrayWindowPtr(s Slice, at *types.Array) Ptr {
	if s.Off.IsConst() && s.Off.Uint64() == 0 {
		v := in.load(s.Base)
		switch a := v.(type) {
		case SArray:
			if a.N.IsConst() && a.N.Uint64() == uint64(at.Len()) {
				return s.Base
			}
		case Array:
			if int64(len(a.Cells)) == at.Len() {
				return s.Base
			}
		}
	}
	// general case: materialise a copy (writes through the pointer would not alias)
	if w, ok := scalarElem(at.Elem()); ok {
		sa, _ := in.sliceArr(s)
		cells := make([]*smt.Term, at.Len())
		for k := range cells {
			cells[k] = sa.A.Read(in.C, in.C.BVAdd(s.Off, in.u64(uint64(k))))
		}
		obj := in.newObj(SArray{A: &cellsArr{cells: cells, w: w}, W: w, N: in.u64(uint64(at.Len()))}, at)
		return Ptr{Obj: obj}
	}
	in.unsupported("slice-to-array-pointer on non-scalar window")
	return Ptr{}
}

func (in *Interp) sliceOp(fr *frame, i *ssa.Slice) Value {
	x := in.get(fr, i.X)
	var lo, hi, max *smt.Term
	if i.Low != nil {
		lo = in.toIdx(in.get(fr, i.Low), i.Low.Type())
	} else {
		lo = in.u64(0)
	}
	if i.High != nil {
		hi = in.toIdx(in.get(fr, i.High), i.High.Type())
	}
	if i.Max != nil {
		max = in.toIdx(in.get(fr, i.Max), i.Max.Type())
	}
	switch a := x.(type) {
	case Str:
		if hi == nil {
			hi = a.Len
		}
		in.checkOK(in.C.And(in.C.Ule(lo, hi), in.C.Ule(hi, a.Len)), "slice bounds out of range")
		return Str{A: a.A, Off: in.C.BVAdd(a.Off, lo), Len: in.C.BVSub(hi, lo)}
	case Slice:
		if hi == nil {
			hi = a.Len
		}
		if max == nil {
			max = a.Cap
		} else {
			in.checkOK(in.C.Ule(max, a.Cap), "slice bounds out of range")
		}
		in.checkOK(in.C.And(in.C.Ule(lo, hi), in.C.Ule(hi, max)), "slice bounds out of range")
		if a.Base.Obj == 0 {
			return a
		}
		return Slice{Base: a.Base, Off: in.C.BVAdd(a.Off, lo), Len: in.C.BVSub(hi, lo), Cap: in.C.BVSub(max, lo)}
	case Ptr:
		if a.Obj == 0 {
			in.raise("nil pointer dereference", nil)
		}
		at := i.X.Type().Underlying().(*types.Pointer).Elem().Underlying().(*types.Array)
		n := in.u64(uint64(at.Len()))
		if hi == nil {
			hi = n
		}
		if max == nil {
			max = n
		} else {
			in.checkOK(in.C.Ule(max, n), "slice bounds out of range")
		}
		in.checkOK(in.C.And(in.C.Ule(lo, hi), in.C.Ule(hi, max)), "slice bounds out of range")
		return Slice{Base: a, Off: lo, Len: in.C.BVSub(hi, lo), Cap: in.C.BVSub(max, lo)}
	}
	in.unsupported("Slice on %s", describe(x))
	return nil
}

func (in *Interp) typeAssert(x Value, i *ssa.TypeAssert) Value {
	ifc, ok := x.(Iface)
	if !ok {
		in.unsupported("TypeAssert on %s", describe(x))
	}
	var res Value
	okv := false
	if ifc.T != nil {
		if isInterface(i.AssertedType) {
			it := i.AssertedType.Underlying().(*types.Interface)
			if ifc.T == opaqueErrType {
				okv = types.Identical(it, errorIface()) || it.NumMethods() == 0
			} else {
				okv = types.Implements(ifc.T, it)
			}
			if okv {
				res = ifc
			}
		} else {
			okv = types.Identical(ifc.T, i.AssertedType)
			if okv {
				res = ifc.V
			}
		}
	}
	if i.CommaOk {
		if !okv {
			res = in.zero(i.AssertedType)
		}
		return Tuple{res, BV{in.C.Bool(okv)}}
	}
	if !okv {
		in.raise("interface conversion (type assertion failed)", nil)
	}
	return res
}

// ---- unary ops

func (in *Interp) unop(fr *frame, i *ssa.UnOp) Value {
	x := in.get(fr, i.X)
	switch i.Op {
	case token.MUL:
		p, ok := x.(Ptr)
		if !ok {
			in.unsupported("load through %s", describe(x))
		}
		return in.load(p)
	case token.NOT:
		return BV{in.C.Not(x.(BV).T)}
	case token.SUB:
		if f, ok := x.(Float); ok {
			return Float{V: -f.V}
		}
		return BV{in.C.BVNeg(x.(BV).T)}
	case token.XOR:
		return BV{in.C.BVNot(x.(BV).T)}
	case token.ARROW:
		v, ok := in.chanRecv(x.(ChanV), i.X.Type().Underlying().(*types.Chan).Elem())
		if i.CommaOk {
			return Tuple{v, BV{in.C.Bool(ok)}}
		}
		return v
	}
	in.unsupported("unary op %s", i.Op)
	return nil
}

// ---- binary ops

func (in *Interp) binop(op token.Token, x, y Value, xt, yt types.Type) Value {
	c := in.C
	switch op {
	case token.EQL:
		return BV{in.valuesEqual(x, y)}
	case token.NEQ:
		return BV{c.Not(in.valuesEqual(x, y))}
	}
	if fx, ok := x.(Float); ok {
		fy := y.(Float)
		switch op {
		case token.ADD:
			return Float{V: fx.V + fy.V}
		case token.SUB:
			return Float{V: fx.V - fy.V}
		case token.MUL:
			return Float{V: fx.V * fy.V}
		case token.QUO:
			return Float{V: fx.V / fy.V}
		case token.LSS:
			return BV{c.Bool(fx.V < fy.V)}
		case token.LEQ:
			return BV{c.Bool(fx.V <= fy.V)}
		case token.GTR:
			return BV{c.Bool(fx.V > fy.V)}
		case token.GEQ:
			return BV{c.Bool(fx.V >= fy.V)}
		}
		in.unsupported("float op %s", op)
	}
	if sx, ok := x.(Str); ok {
		sy := y.(Str)
		switch op {
		case token.ADD:
			return in.strConcat(sx, sy)
		case token.LSS, token.LEQ, token.GTR, token.GEQ:
			a, oka := in.concreteString(sx)
			b, okb := in.concreteString(sy)
			if oka && okb {
				switch op {
				case token.LSS:
					return BV{c.Bool(a < b)}
				case token.LEQ:
					return BV{c.Bool(a <= b)}
				case token.GTR:
					return BV{c.Bool(a > b)}
				case token.GEQ:
					return BV{c.Bool(a >= b)}
				}
			}
			in.unsupported("symbolic string ordering")
		}
	}
	bx, ok := x.(BV)
	if !ok {
		in.unsupported("binop %s on %s", op, describe(x))
	}
	by := y.(BV)
	if bx.T.Sort.IsBool() {
		switch op {
		case token.AND, token.LAND:
			return BV{c.And(bx.T, by.T)}
		case token.OR, token.LOR:
			return BV{c.Or(bx.T, by.T)}
		case token.XOR:
			return BV{c.Not(c.Eq(bx.T, by.T))}
		}
		in.unsupported("bool binop %s", op)
	}
	w, signed, _ := intWidth(xt)
	a, b := bx.T, by.T
	switch op {
	case token.SHL, token.SHR:
		// shift count may have a different width and signedness
		yw, ysigned, _ := intWidth(yt)
		_ = yw
		if ysigned {
			in.checkOK(c.Sge(b, c.BV(b.Sort.W, 0)), "negative shift amount")
		}
		var cnt *smt.Term
		if b.Sort.W > w {
			// shifting by >= w gives 0/sign; saturate
			big := c.Uge(b, c.BV(b.Sort.W, uint64(w)))
			cnt = c.Ite(big, c.BV(w, uint64(w)), c.Extract(b, w-1, 0))
		} else {
			cnt = c.ZExt(b, w-b.Sort.W)
		}
		if op == token.SHL {
			return BV{c.BVShl(a, cnt)}
		}
		if signed {
			return BV{c.BVAshr(a, cnt)}
		}
		return BV{c.BVLshr(a, cnt)}
	}
	if a.Sort != b.Sort {
		in.unsupported("internal: binop %s width mismatch %v %v", op, a.Sort, b.Sort)
	}
	switch op {
	case token.ADD:
		return BV{c.BVAdd(a, b)}
	case token.SUB:
		return BV{c.BVSub(a, b)}
	case token.MUL:
		return BV{c.BVMul(a, b)}
	case token.QUO:
		in.checkOK(c.Ne(b, c.BV(w, 0)), "integer divide by zero")
		if signed {
			return BV{c.BVSDiv(a, b)}
		}
		return BV{c.BVUDiv(a, b)}
	case token.REM:
		in.checkOK(c.Ne(b, c.BV(w, 0)), "integer divide by zero")
		if signed {
			return BV{c.BVSRem(a, b)}
		}
		return BV{c.BVURem(a, b)}
	case token.AND:
		return BV{c.BVAnd(a, b)}
	case token.OR:
		return BV{c.BVOr(a, b)}
	case token.XOR:
		return BV{c.BVXor(a, b)}
	case token.AND_NOT:
		return BV{c.BVAnd(a, c.BVNot(b))}
	case token.LSS:
		if signed {
			return BV{c.Slt(a, b)}
		}
		return BV{c.Ult(a, b)}
	case token.LEQ:
		if signed {
			return BV{c.Sle(a, b)}
		}
		return BV{c.Ule(a, b)}
	case token.GTR:
		if signed {
			return BV{c.Sgt(a, b)}
		}
		return BV{c.Ugt(a, b)}
	case token.GEQ:
		if signed {
			return BV{c.Sge(a, b)}
		}
		return BV{c.Uge(a, b)}
	}
	in.unsupported("binop %s", op)
	return nil
}

func (in *Interp) strConcat(a, b Str) Str {
	if a.Len.IsConst() && a.Len.Uint64() == 0 {
		return b
	}
	if b.Len.IsConst() && b.Len.Uint64() == 0 {
		return a
	}
	n := in.C.BVAdd(a.Len, b.Len)
	var arr ArrayTerm
	if n.IsConst() && n.Uint64() <= 4096 {
		arr = newCells(in.C, int(n.Uint64()), 8)
	} else {
		arr = &zeroArr{w: 8}
	}
	arr = arrCopy(in.C, arr, in.u64(0), a.A, a.Off, a.Len)
	arr = arrCopy(in.C, arr, a.Len, b.A, b.Off, b.Len)
	return Str{A: arr, Off: in.u64(0), Len: n}
}

// ---- conversions

func (in *Interp) convert(x Value, from, to types.Type) Value {
	c := in.C
	fu, tu := from.Underlying(), to.Underlying()
	// numeric
	if tw, _, ok := intWidth(tu); ok {
		switch v := x.(type) {
		case BV:
			_, fsigned, _ := intWidth(fu)
			return BV{c.Resize(v.T, tw, fsigned)}
		case Float:
			_, tsigned, _ := intWidth(tu)
			if v.Sym != nil {
				switch v.Kind {
				case "int":
					return BV{c.Resize(v.Sym, tw, false)}
				case "log2int":
					// int(math.Log2(float64(i))) == bits.Len(i)-1 for 1 <= i < 2^48 (validated natively)
					if in.branch(c.Uge(v.Sym, in.u64(1<<48))) {
						in.unsupported("math.Log2 model outside validated range (>= 2^48)")
					}
					r := c.Ite(c.Eq(v.Sym, in.u64(0)), in.i64(-1<<63), c.BVSub(in.bitLen(v.Sym, 64), in.i64(1)))
					return BV{c.Resize(r, tw, true)}
				}
				in.unsupported("symbolic float to int conversion")
			}
			if tsigned {
				return BV{c.BVInt(tw, int64(v.V))}
			}
			return BV{c.BV(tw, uint64(v.V))}
		case Ptr:
			// unsafe.Pointer -> uintptr
			in.unsupported("pointer to integer conversion")
		}
	}
	if isFloat(tu) {
		switch v := x.(type) {
		case Float:
			if tu.(*types.Basic).Kind() == types.Float32 {
				return Float{V: float64(float32(v.V))}
			}
			return v
		case BV:
			_, fsigned, _ := intWidth(fu)
			if !v.T.IsConst() {
				if fsigned {
					in.checkOK(c.Sge(v.T, c.BV(v.T.Sort.W, 0)), "verif: negative symbolic int to float unsupported")
				}
				return Float{Sym: c.Resize(v.T, 64, false), Kind: "int"}
			}
			if fsigned {
				return Float{V: float64(v.T.Int64())}
			}
			return Float{V: float64(v.T.Uint64())}
		}
	}
	if isString(tu) {
		switch v := x.(type) {
		case Str:
			return v
		case Slice:
			// string(bytes): immutable snapshot
			if v.Base.Obj == 0 {
				return in.constStr("")
			}
			sa, ok := in.sliceArr(v)
			if !ok {
				in.unsupported("string() of non-byte slice")
			}
			if sa.W != 8 {
				in.unsupported("string() of rune slice")
			}
			return Str{A: sa.A, Off: v.Off, Len: v.Len}
		case BV:
			if v.T.IsConst() {
				return in.constStr(string(rune(v.T.Int64())))
			}
			in.unsupported("string(symbolic rune)")
		}
	}
	if st, ok := tu.(*types.Slice); ok {
		if s, ok := x.(Str); ok {
			w, _ := scalarElem(st.Elem())
			if w != 8 {
				in.unsupported("[]rune(string)")
			}
			res := in.newScalarSlice(st.Elem(), 8, s.Len, s.Len)
			in.copyInto(res, in.u64(0), s.A, s.Off, s.Len)
			return res
		}
		if s, ok := x.(Slice); ok {
			return s
		}
	}
	switch x.(type) {
	case Ptr, Slice, MapV, ChanV, Func, Struct, Array, SArray, Iface:
		return x
	}
	in.unsupported("conversion %s -> %s", from, to)
	return nil
}

// ---- range / next

func (in *Interp) makeRange(x Value) Value {
	switch v := x.(type) {
	case MapV:
		ks, vs := in.mapLive(v)
		return IterV{It: &iterState{keys: ks, vals: vs}}
	case Str:
		return IterV{It: &iterState{isStr: true, str: v}}
	}
	in.unsupported("range over %s", describe(x))
	return nil
}

func (in *Interp) iterNext(it IterV, i *ssa.Next) Value {
	st := it.It
	tt := i.Type().(*types.Tuple)
	if st.isStr {
		n := in.concretize(st.str.Len, "string length in range")
		if uint64(st.pos) >= n {
			return Tuple{BV{in.C.False}, in.zero(tt.At(1).Type()), in.zero(tt.At(2).Type())}
		}
		b := st.str.A.Read(in.C, in.C.BVAdd(st.str.Off, in.u64(uint64(st.pos))))
		// ASCII only (assumed): bytes >= 0x80 are not decoded
		if !in.branch(in.C.Ult(b, in.C.BV(8, 0x80))) {
			in.unsupported("non-ASCII byte in range over string")
		}
		idx := st.pos
		st.pos++
		return Tuple{BV{in.C.True}, BV{in.i64(int64(idx))}, BV{in.C.ZExt(b, 24)}}
	}
	if st.pos >= len(st.keys) {
		return Tuple{BV{in.C.False}, in.zero(tt.At(1).Type()), in.zero(tt.At(2).Type())}
	}
	k, v := st.keys[st.pos], st.vals[st.pos]
	st.pos++
	return Tuple{BV{in.C.True}, k, v}
}
