package symgo

import (
	"fmt"
	"go/types"
	"strings"

	"golang.org/x/tools/go/ssa"

	"verif/engine/smt"
)

// Packages whose code is executed for real by default (pure library code).
var defaultExec = []string{
	"github.com/zen-eth/shisui",
	"bytes", "errors", "encoding/binary", "math/bits", "slices", "sort", "strings", "io",
	"unicode/utf8", "container/list", "cmp", "maps", "iter", "encoding/hex", "strconv", "unicode", "internal/bytealg",
	"internal/byteorder", "internal/stringslite", "math",
	"github.com/ferranbt/fastssz",
	"github.com/tetratelabs/wabin/leb128",
	"github.com/holiman/uint256",
	"math/big",
	"github.com/OffchainLabs/go-bitfield",
	"golang.org/x/sync/semaphore",
	"sync/atomic",
	"github.com/protolambda/zrnt/eth2/util/merkle",
	"github.com/protolambda/zrnt/eth2/util/hashing",
	"github.com/protolambda/ztyp/tree",
	"github.com/ethereum/go-ethereum/common",
	"github.com/ethereum/go-ethereum/p2p/enode.LogDist",
	"github.com/ethereum/go-ethereum/p2p/enode.DistCmp",
}

// Calls that are no-ops by default (logging, metrics, formatting for messages).
var defaultNoop = []string{
	"(github.com/ethereum/go-ethereum/log.Logger).",
	"github.com/ethereum/go-ethereum/log.",
	"(*github.com/ethereum/go-ethereum/metrics.",
	"(github.com/ethereum/go-ethereum/metrics.",
	"github.com/ethereum/go-ethereum/metrics.",
	"(*log/slog.",
	"log/slog.",
	"fmt.Print", "fmt.Fprint", "log.Print",
	"(*sync.Mutex).", "(*sync.RWMutex).", "(*sync.WaitGroup).Add", "(*sync.WaitGroup).Done",
	"runtime.KeepAlive", "runtime.Gosched", "runtime.SetFinalizer",
	"time.Sleep",
}

func (in *Interp) execAllowed(fn *ssa.Function) bool {
	name := in.fname(fn)
	if in.execOK[name] {
		return true
	}
	pkg := fnPkgPath(fn)
	if pkg == "" {
		return true // synthetic wrappers without package: decided by what they call
	}
	for p := range in.execOK {
		if pkg == p || strings.HasPrefix(pkg, p+"/") {
			return true
		}
	}
	return false
}

func fnPkgPath(fn *ssa.Function) string {
	if fn.Pkg != nil {
		return fn.Pkg.Pkg.Path()
	}
	if o := fn.Origin(); o != nil && o.Pkg != nil {
		return o.Pkg.Pkg.Path()
	}
	if fn.Object() != nil && fn.Object().Pkg() != nil {
		return fn.Object().Pkg().Path()
	}
	if p := fn.Parent(); p != nil {
		return fnPkgPath(p)
	}
	// wrappers/bound methods: take the receiver's package from the name
	return ""
}

// matchName returns names a directive can use for this function: the full name, and for
// generic instances the origin's name.
func (in *Interp) matchNames(fn *ssa.Function) []string {
	names := []string{in.fname(fn)}
	if o := fn.Origin(); o != nil && o != fn {
		names = append(names, in.fname(o))
	}
	// strip $bound / $thunk suffixes
	n := names[0]
	for _, suf := range []string{"$bound", "$thunk"} {
		if strings.HasSuffix(n, suf) {
			names = append(names, strings.TrimSuffix(n, suf))
		}
	}
	return names
}

func (in *Interp) prepareCall(fr *frame, cc *ssa.CallCommon) (Value, []Value) {
	var args []Value
	if cc.IsInvoke() {
		recv := in.get(fr, cc.Value)
		args = append(args, recv)
		for _, a := range cc.Args {
			args = append(args, in.get(fr, a))
		}
		return nil, args
	}
	fn := in.get(fr, cc.Value)
	for _, a := range cc.Args {
		args = append(args, in.get(fr, a))
	}
	return fn, args
}

func (in *Interp) doCall(fr *frame, cc *ssa.CallCommon, instr ssa.Value) Value {
	fn, args := in.prepareCall(fr, cc)
	return in.invoke(fn, args, cc, instr)
}

// invoke calls fn (nil for interface invoke: args[0] is the receiver interface).
func (in *Interp) invoke(fnv Value, args []Value, cc *ssa.CallCommon, instr ssa.Value) Value {
	if cc != nil && cc.IsInvoke() {
		recv, ok := args[0].(Iface)
		if !ok {
			in.unsupported("invoke on %s", describe(args[0]))
		}
		if recv.T == nil {
			// loggers/metrics are no-ops even when the harness left the field nil
			name := fmt.Sprintf("(%s).%s", cc.Value.Type().String(), cc.Method.Name())
			for _, p := range defaultNoop {
				if strings.HasPrefix(name, p) {
					in.Rep.StubsHit["noop:"+p+"*"]++
					sig := cc.Method.Type().(*types.Signature)
					switch sig.Results().Len() {
					case 0:
						return nil
					case 1:
						return in.zero(sig.Results().At(0).Type())
					}
					return in.zero(sig.Results())
				}
			}
			in.raise("nil pointer dereference", nil)
		}
		if recv.T == opaqueErrType {
			if cc.Method.Name() == "Error" {
				return in.constStr("opaque error")
			}
			in.unsupported("method %s on opaque error", cc.Method.Name())
		}
		if op, ok := recv.V.(Opaque); ok {
			if recv.T == opaqueCtxType {
				sig := cc.Method.Type().(*types.Signature)
				var rt types.Type
				switch sig.Results().Len() {
				case 1:
					rt = sig.Results().At(0).Type()
				case 0:
				default:
					rt = sig.Results()
				}
				if v, ok := in.ctxMethod(op, cc.Method.Name(), rt); ok {
					return v
				}
			}
			return in.opaqueMethod(op, recv.T, cc, args[1:])
		}
		m := in.Prog.LookupMethod(recv.T, cc.Method.Pkg(), cc.Method.Name())
		if m == nil {
			in.unsupported("no method %s on %s", cc.Method.Name(), recv.T)
		}
		nargs := append([]Value{recv.V}, args[1:]...)
		return in.callFunction(m, nargs, nil, cc)
	}
	f, ok := fnv.(Func)
	if !ok {
		in.unsupported("call of %s", describe(fnv))
	}
	if f.B != nil {
		return in.builtin(f.B, args, cc)
	}
	if f.CancelCh != 0 {
		in.chanState(ChanV{Obj: f.CancelCh}).closed = true
		return nil
	}
	if f.Noop {
		return nil
	}
	if f.Fn == nil {
		in.raise("nil pointer dereference", nil)
	}
	return in.callFunction(f.Fn, args, f.Binds, cc)
}

func (in *Interp) retType(fn *ssa.Function) types.Type {
	res := fn.Signature.Results()
	switch res.Len() {
	case 0:
		return nil
	case 1:
		return res.At(0).Type()
	}
	return res
}

func (in *Interp) callFunction(fn *ssa.Function, args []Value, binds []Value, cc *ssa.CallCommon) Value {
	// bodies of dependency packages are built lazily; Build blocks until the package is complete
	// (another worker may be building it right now, fn.Blocks must not be read before that)
	if fn.Pkg != nil && !in.built[fn.Pkg] {
		fn.Pkg.Build()
		in.built[fn.Pkg] = true
	} else if fn.Pkg == nil {
		if o := fn.Origin(); o != nil && o.Pkg != nil && !in.built[o.Pkg] {
			o.Pkg.Build()
			in.built[o.Pkg] = true
		}
	}
	names := in.matchNames(fn)
	if in.lenient > 0 && fn.Synthetic == "package initializer" {
		return nil
	}
	// 1. harness intrinsics and engine intrinsics
	if fn.Pkg != nil || fn.Origin() != nil {
		short := fn.Name()
		if o := fn.Origin(); o != nil {
			short = o.Name()
		}
		if strings.HasPrefix(short, "vs") {
			if r, ok := in.vsIntrinsic(short, fn, args); ok {
				return r
			}
		}
	}
	for _, n := range names {
		if m, ok := in.Cfg.Models[n]; ok {
			in.Rep.ModelsHit[n]++
			return in.call(m, args, nil, n)
		}
	}
	for _, n := range names {
		if k, ok := in.Cfg.Stubs[n]; ok {
			return in.stub(k, n, fn, args)
		}
		if u, ok := in.Cfg.UFs[n]; ok {
			return in.ufCall(n, u, fn, args)
		}
	}
	for _, n := range names {
		if h, ok := intrinsics[n]; ok {
			return h(in, fn, args)
		}
	}
	for _, n := range names {
		for _, p := range defaultNoop {
			if strings.HasPrefix(n, p) {
				in.Rep.StubsHit["noop:"+p+"*"]++
				return in.zeroRet(fn)
			}
		}
	}
	if fn.Blocks != nil && in.execAllowed(fn) {
		return in.call(fn, args, binds, "")
	}
	if fn.Blocks != nil && fn.Synthetic != "" && fn.Pkg == nil {
		return in.call(fn, args, binds, "")
	}
	if fn.Blocks == nil && fn.Pkg != nil && in.execAllowed(fn) {
		fn.Pkg.Build()
		if fn.Blocks != nil {
			return in.call(fn, args, binds, "")
		}
	}
	if in.lenient > 0 {
		return in.zeroRet(fn)
	}
	in.unsupported("unsupported call: %s (add //verif:stub, //verif:model or //verif:exec)", names[0])
	return nil
}

func (in *Interp) zeroRet(fn *ssa.Function) Value {
	rt := in.retType(fn)
	if rt == nil {
		return nil
	}
	return in.zero(rt)
}

// ---- stubs

func (in *Interp) stub(k StubKind, name string, fn *ssa.Function, args []Value) Value {
	in.Rep.StubsHit[stubKindName(k)+":"+name]++
	rt := in.retType(fn)
	switch k {
	case StubNoop:
		if rt == nil {
			return nil
		}
		return in.zero(rt)
	case StubHavoc:
		if rt == nil {
			return nil
		}
		return in.havoc(rt, "havoc!"+shortName(name), in.Cfg.Nilable[name])
	case StubAttr:
		key := name
		for _, a := range args {
			key += "|" + in.identKey(a)
		}
		if v, ok := in.attrMemo[key]; ok {
			return v
		}
		if rt == nil {
			return nil
		}
		v := in.havoc(rt, "attr!"+shortName(name), in.Cfg.Nilable[name])
		in.attrMemo[key] = v
		return v
	}
	return nil
}

func stubKindName(k StubKind) string {
	switch k {
	case StubHavoc:
		return "havoc"
	case StubNoop:
		return "noop"
	case StubAttr:
		return "attr"
	}
	return "?"
}

func shortName(n string) string {
	if i := strings.LastIndex(n, "/"); i >= 0 {
		n = n[i+1:]
	}
	return n
}

// identKey gives a stable identity string for memoisation of attr stubs.
func (in *Interp) identKey(v Value) string {
	switch x := v.(type) {
	case Ptr:
		return fmt.Sprintf("p%d.%d", x.Obj, len(x.Path))
	case Opaque:
		return fmt.Sprintf("o%d", x.ID)
	case Iface:
		return "i:" + in.identKey(x.V)
	case BV:
		return fmt.Sprintf("t%d", x.T.ID)
	case MapV:
		return fmt.Sprintf("m%d", x.Obj)
	case Struct:
		s := "s("
		for _, f := range x.F {
			s += in.identKey(f) + ","
		}
		return s + ")"
	case SArray:
		if x.N.IsConst() && x.N.Uint64() <= 64 {
			s := "a("
			for i := uint64(0); i < x.N.Uint64(); i++ {
				s += fmt.Sprintf("%d,", x.A.Read(in.C, in.u64(i)).ID)
			}
			return s + ")"
		}
	case Str:
		if cs, ok := in.concreteString(x); ok {
			return "str:" + cs
		}
	}
	return fmt.Sprintf("%T", v)
}

// havoc creates an unconstrained value of the type. Errors fork {nil, opaque error}.
func (in *Interp) havoc(t types.Type, tag string, nilable bool) Value {
	if t.String() == "error" {
		if in.choose(2) == 0 {
			return Iface{}
		}
		in.opaqueSeq++
		return Iface{T: opaqueErrType, V: Opaque{ID: in.opaqueSeq, Kind: "error:" + tag}}
	}
	switch u := t.Underlying().(type) {
	case *types.Basic:
		if w, _, ok := intWidth(u); ok {
			return BV{in.C.Fresh(tag, smt.BVSort(w))}
		}
		if isBool(u) {
			return BV{in.C.Fresh(tag, smt.BoolSort)}
		}
		if isString(u) {
			return in.constStr("")
		}
	case *types.Tuple:
		tv := make(Tuple, u.Len())
		// Go convention for (values..., error): a non-nil error comes with zero values, a nil
		// error with usable (non-nil unless nilable) values.
		last := u.Len() - 1
		if last >= 1 && u.At(last).Type().String() == "error" {
			tv[last] = in.havoc(u.At(last).Type(), fmt.Sprintf("%s.%d", tag, last), nilable)
			if e := tv[last].(Iface); e.T != nil {
				for i := 0; i < last; i++ {
					tv[i] = in.zero(u.At(i).Type())
				}
				return tv
			}
			for i := 0; i < last; i++ {
				tv[i] = in.havoc(u.At(i).Type(), fmt.Sprintf("%s.%d", tag, i), nilable)
			}
			return tv
		}
		for i := u.Len() - 1; i >= 0; i-- {
			tv[i] = in.havoc(u.At(i).Type(), fmt.Sprintf("%s.%d", tag, i), nilable)
		}
		return tv
	case *types.Struct:
		f := make([]Value, u.NumFields())
		for i := range f {
			f[i] = in.havoc(u.Field(i).Type(), fmt.Sprintf("%s.%s", tag, u.Field(i).Name()), nilable)
		}
		return Struct{F: f}
	case *types.Array:
		if w, ok := scalarElem(u.Elem()); ok && u.Len() <= 4096 {
			cells := make([]*smt.Term, u.Len())
			for i := range cells {
				cells[i] = in.C.Fresh(tag, smt.BVSort(w))
			}
			return SArray{A: &cellsArr{cells: cells, w: w}, W: w, N: in.u64(uint64(u.Len()))}
		}
	case *types.Slice:
		if w, ok := scalarElem(u.Elem()); ok {
			if nilable && in.choose(2) == 1 {
				return in.zero(t)
			}
			n := in.C.Fresh(tag+".len", smt.BVSort(64))
			in.assume(in.C.Ule(n, in.u64(uint64(in.Cfg.HavocMax))))
			arr := in.C.Fresh(tag+".arr", smt.ArrSort(64, w))
			obj := in.newObj(SArray{A: &baseArr{sym: arr, w: w}, W: w, N: n}, t)
			return Slice{Base: Ptr{Obj: obj}, Off: in.u64(0), Len: n, Cap: n}
		}
		// slices of non-scalar elements: the empty (nil) slice stands for "some value"
		return in.zero(t)
	case *types.Pointer:
		if nilable && in.choose(2) == 1 {
			return Ptr{}
		}
		// fresh object with havoc'd contents where possible, else zero
		obj := in.newObj(in.zero(u.Elem()), u.Elem())
		return Ptr{Obj: obj}
	case *types.Interface:
		if nilable {
			return Iface{}
		}
		in.opaqueSeq++
		return Iface{T: types.NewNamed(types.NewTypeName(0, nil, "verifOpaque", nil), types.NewStruct(nil, nil), nil), V: Opaque{ID: in.opaqueSeq, Kind: tag}}
	case *types.Map:
		return in.zero(t)
	case *types.Chan:
		return in.zero(t)
	case *types.Signature:
		return in.zero(t)
	}
	in.unsupported("havoc of type %s (%s)", t, tag)
	return nil
}

func (in *Interp) opaqueMethod(op Opaque, dyn types.Type, cc *ssa.CallCommon, args []Value) Value {
	// methods on opaque interface values: stubbed by "(iface type).Method"
	name := fmt.Sprintf("(%s).%s", cc.Value.Type().String(), cc.Method.Name())
	sig := cc.Method.Type().(*types.Signature)
	var rt types.Type
	switch sig.Results().Len() {
	case 0:
	case 1:
		rt = sig.Results().At(0).Type()
	default:
		rt = sig.Results()
	}
	if m, ok := in.Cfg.Models[name]; ok {
		in.Rep.ModelsHit[name]++
		return in.call(m, append([]Value{Iface{T: dyn, V: op}}, args...), nil, name)
	}
	k, ok := in.Cfg.Stubs[name]
	if !ok {
		for _, p := range defaultNoop {
			if strings.HasPrefix(name, p) {
				k, ok = StubNoop, true
			}
		}
	}
	if !ok {
		in.unsupported("unsupported call on opaque value: %s", name)
	}
	in.Rep.StubsHit[stubKindName(k)+":"+name]++
	if rt == nil {
		return nil
	}
	switch k {
	case StubNoop:
		return in.zero(rt)
	case StubAttr:
		key := fmt.Sprintf("%s|o%d", name, op.ID)
		if v, ok := in.attrMemo[key]; ok {
			return v
		}
		v := in.havoc(rt, "attr!"+shortName(name), in.Cfg.Nilable[name])
		in.attrMemo[key] = v
		return v
	}
	return in.havoc(rt, "havoc!"+shortName(name), in.Cfg.Nilable[name])
}

// ---- uninterpreted functions

func (in *Interp) flatten(v Value, out *[]*smt.Term) {
	switch x := v.(type) {
	case BV:
		t := x.T
		if t.Sort.IsBool() {
			t = in.C.BoolToBV(t, 1)
		}
		*out = append(*out, t)
	case Struct:
		for _, f := range x.F {
			in.flatten(f, out)
		}
	case SArray:
		n := in.concretize(x.N, "array length in UF argument")
		for i := uint64(0); i < n; i++ {
			*out = append(*out, x.A.Read(in.C, in.u64(i)))
		}
	case Array:
		for _, c := range x.Cells {
			in.flatten(c, out)
		}
	case Slice:
		if x.Base.Obj == 0 {
			return
		}
		n := in.concretize(x.Len, "slice length in UF argument")
		for i := uint64(0); i < n; i++ {
			in.flatten(in.sliceGet(x, in.u64(i)), out)
		}
	case Str:
		n := in.concretize(x.Len, "string length in UF argument")
		for i := uint64(0); i < n; i++ {
			*out = append(*out, x.A.Read(in.C, in.C.BVAdd(x.Off, in.u64(i))))
		}
	case Ptr:
		if x.Obj == 0 {
			*out = append(*out, in.C.BV(8, 0))
			return
		}
		in.flatten(in.load(x), out)
	case Iface:
		if x.T != nil {
			in.flatten(x.V, out)
		}
	case Opaque:
		*out = append(*out, in.C.BV(32, uint64(x.ID)))
	default:
		in.unsupported("UF argument %s", describe(v))
	}
}

func (in *Interp) concatAll(ts []*smt.Term) *smt.Term {
	if len(ts) == 0 {
		return in.C.BV(8, 0)
	}
	r := ts[0]
	for _, t := range ts[1:] {
		r = in.C.Concat(r, t)
	}
	return r
}

// unflatten builds a value of type t from a wide term (big-endian byte order for arrays).
func (in *Interp) typeBits(t types.Type) int {
	switch u := t.Underlying().(type) {
	case *types.Basic:
		if w, _, ok := intWidth(u); ok {
			return w
		}
		if isBool(u) {
			return 1
		}
	case *types.Array:
		return int(u.Len()) * in.typeBits(u.Elem())
	case *types.Struct:
		n := 0
		for i := 0; i < u.NumFields(); i++ {
			n += in.typeBits(u.Field(i).Type())
		}
		return n
	}
	in.unsupported("UF result type %s", t)
	return 0
}

func (in *Interp) unflatten(t types.Type, bits *smt.Term, hi int) (Value, int) {
	switch u := t.Underlying().(type) {
	case *types.Basic:
		if w, _, ok := intWidth(u); ok {
			return BV{in.C.Extract(bits, hi, hi-w+1)}, hi - w
		}
		if isBool(u) {
			return BV{in.C.Eq(in.C.Extract(bits, hi, hi), in.C.BV(1, 1))}, hi - 1
		}
	case *types.Array:
		if w, ok := scalarElem(u.Elem()); ok {
			cells := make([]*smt.Term, u.Len())
			for i := range cells {
				cells[i] = in.C.Extract(bits, hi, hi-w+1)
				hi -= w
			}
			return SArray{A: &cellsArr{cells: cells, w: w}, W: w, N: in.u64(uint64(u.Len()))}, hi
		}
		cells := make([]Value, u.Len())
		for i := range cells {
			cells[i], hi = in.unflatten(u.Elem(), bits, hi)
		}
		return Array{Cells: cells}, hi
	case *types.Struct:
		f := make([]Value, u.NumFields())
		for i := range f {
			f[i], hi = in.unflatten(u.Field(i).Type(), bits, hi)
		}
		return Struct{F: f}, hi
	}
	in.unsupported("UF result type %s", t)
	return nil, 0
}

func (in *Interp) ufCall(name string, u UFCfg, fn *ssa.Function, args []Value) Value {
	in.Rep.UFsHit[name]++
	var flat []*smt.Term
	for _, a := range args {
		in.flatten(a, &flat)
	}
	arg := in.concatAll(flat)
	rt := in.retType(fn)
	if rt == nil {
		return nil
	}
	return in.ufApply(name, u, arg, rt)
}

func (in *Interp) ufApply(name string, u UFCfg, arg *smt.Term, rt types.Type) Value {
	// result may be (T, error): error part is nil
	var tuple *types.Tuple
	resT := rt
	if tp, ok := rt.(*types.Tuple); ok {
		tuple = tp
		resT = tp.At(0).Type()
	}
	var res Value
	if sl, ok := resT.Underlying().(*types.Slice); ok {
		// []byte result: fixed 32 bytes (hash)
		w, _ := scalarElem(sl.Elem())
		if w != 8 {
			in.unsupported("UF slice result of %s", resT)
		}
		bits := in.ufTerm(name, u, arg, 256)
		cells := make([]*smt.Term, 32)
		for i := range cells {
			cells[i] = in.C.Extract(bits, 255-8*i, 248-8*i)
		}
		obj := in.newObj(SArray{A: &cellsArr{cells: cells, w: 8}, W: 8, N: in.u64(32)}, resT)
		res = Slice{Base: Ptr{Obj: obj}, Off: in.u64(0), Len: in.u64(32), Cap: in.u64(32)}
	} else {
		nb := in.typeBits(resT)
		bits := in.ufTerm(name, u, arg, nb)
		res, _ = in.unflatten(resT, bits, nb-1)
	}
	if tuple != nil {
		tv := make(Tuple, tuple.Len())
		tv[0] = res
		for i := 1; i < tuple.Len(); i++ {
			tv[i] = in.zero(tuple.At(i).Type())
		}
		return tv
	}
	return res
}

func (in *Interp) ufTerm(name string, u UFCfg, arg *smt.Term, retBits int) *smt.Term {
	base := shortName(name)
	if u.As != "" {
		base = u.As
	}
	ufName := fmt.Sprintf("uf!%s!%d", base, arg.Sort.W)
	var res *smt.Term
	if retBits == 0 {
		res = in.C.App(ufName, smt.BoolSort, arg)
	} else {
		res = in.C.App(ufName, smt.BVSort(retBits), arg)
	}
	if u.Injective && in.lenient == 0 {
		apps := in.ufApps[ufName]
		dup := false
		for _, a := range apps {
			if a.args[0] == arg {
				dup = true
				break
			}
		}
		if !dup {
			for _, a := range apps {
				// H(x) = H(y) -> x = y
				in.assume(in.C.Implies(in.C.Eq(a.res, res), in.C.Eq(a.args[0], arg)))
			}
			in.ufApps[ufName] = append(apps, ufApp{args: []*smt.Term{arg}, res: res})
		}
	}
	return res
}

// ---- builtins

func (in *Interp) builtin(b *ssa.Builtin, args []Value, cc *ssa.CallCommon) Value {
	c := in.C
	switch b.Name() {
	case "len":
		switch x := args[0].(type) {
		case Slice:
			return BV{x.Len}
		case Str:
			return BV{x.Len}
		case MapV:
			ks, _ := in.mapLive(x)
			return BV{in.i64(int64(len(ks)))}
		case ChanV:
			if x.Obj == 0 {
				return BV{in.i64(0)}
			}
			return BV{in.i64(int64(len(in.chanState(x).buf)))}
		case Ptr:
			at := cc.Args[0].Type().Underlying().(*types.Pointer).Elem().Underlying().(*types.Array)
			return BV{in.i64(at.Len())}
		case SArray:
			return BV{x.N}
		case Array:
			return BV{in.i64(int64(len(x.Cells)))}
		}
	case "cap":
		switch x := args[0].(type) {
		case Slice:
			return BV{x.Cap}
		case ChanV:
			if x.Obj == 0 {
				return BV{in.i64(0)}
			}
			return BV{in.i64(int64(in.chanState(x).cap))}
		case Ptr:
			at := cc.Args[0].Type().Underlying().(*types.Pointer).Elem().Underlying().(*types.Array)
			return BV{in.i64(at.Len())}
		case SArray:
			return BV{x.N}
		case Array:
			return BV{in.i64(int64(len(x.Cells)))}
		}
	case "append":
		return in.appendOp(args[0].(Slice), args[1], cc.Args[0].Type())
	case "copy":
		dst := args[0].(Slice)
		sA, sOff, sLen := in.copySrc(args[1])
		n := in.umin(dst.Len, sLen)
		if dst.Base.Obj == 0 {
			return BV{in.u64(0)}
		}
		if _, ok := in.sliceArr(dst); ok {
			in.copyInto(dst, in.u64(0), sA, sOff, n)
			return BV{n}
		}
		// generic slices
		src := args[1].(Slice)
		cn := in.concretize(n, "copy length")
		vals := make([]Value, cn)
		for i := uint64(0); i < cn; i++ {
			vals[i] = in.sliceGet(src, in.u64(i))
		}
		for i := uint64(0); i < cn; i++ {
			in.sliceSet(dst, in.u64(i), vals[i])
		}
		return BV{in.u64(cn)}
	case "delete":
		in.mapDelete(args[0].(MapV), args[1])
		return nil
	case "close":
		ch := args[0].(ChanV)
		if ch.Obj == 0 {
			in.raise("close of nil channel", nil)
		}
		st := in.chanState(ch)
		if st.closed {
			in.raise("close of closed channel", nil)
		}
		st.closed = true
		return nil
	case "clear":
		switch x := args[0].(type) {
		case MapV:
			if x.Obj != 0 {
				ms := in.mapState(x)
				in.heap[x.Obj].V = &mapState{kt: ms.kt, vt: ms.vt}
			}
		case Slice:
			if x.Base.Obj != 0 {
				if sa, ok := in.sliceArr(x); ok {
					in.copyInto(x, in.u64(0), &zeroArr{w: sa.W}, in.u64(0), x.Len)
				} else {
					n := in.concretize(x.Len, "clear length")
					et := cc.Args[0].Type().Underlying().(*types.Slice).Elem()
					for i := uint64(0); i < n; i++ {
						in.sliceSet(x, in.u64(i), in.zero(et))
					}
				}
			}
		}
		return nil
	case "min", "max":
		r := args[0]
		_, signed, _ := intWidth(cc.Args[0].Type())
		for _, a := range args[1:] {
			x, y := r.(BV).T, a.(BV).T
			var lt *smt.Term
			if signed {
				lt = c.Slt(y, x)
			} else {
				lt = c.Ult(y, x)
			}
			if b.Name() == "max" {
				lt = c.Not(c.Or(lt, c.Eq(x, y)))
				// y > x
			}
			r = BV{c.Ite(lt, y, x)}
		}
		return r
	case "panic":
		in.raise("explicit", args[0])
	case "recover":
		if len(in.panicFrs) > 0 {
			fr := in.panicFrs[len(in.panicFrs)-1]
			if fr.panicking != nil {
				gp := fr.panicking
				fr.panicking = nil
				if gp.kind == "explicit" {
					return gp.val
				}
				return in.newOpaqueErr("runtime error: " + gp.kind)
			}
		}
		return Iface{}
	case "print", "println":
		return nil
	case "ssa:wrapnilchk":
		if p, ok := args[0].(Ptr); ok && p.Obj == 0 {
			in.raise("nil pointer dereference", nil)
		}
		return args[0]
	case "real", "imag", "complex":
		in.unsupported("complex numbers")
	}
	in.unsupported("builtin %s on %s", b.Name(), describe(args[0]))
	return nil
}

func (in *Interp) copySrc(v Value) (ArrayTerm, *smt.Term, *smt.Term) {
	switch x := v.(type) {
	case Str:
		return x.A, x.Off, x.Len
	case Slice:
		if x.Base.Obj == 0 {
			return &cellsArr{w: 8}, in.u64(0), in.u64(0)
		}
		if sa, ok := in.sliceArr(x); ok {
			return sa.A, x.Off, x.Len
		}
		return nil, x.Off, x.Len
	}
	in.unsupported("copy source %s", describe(v))
	return nil, nil, nil
}

func (in *Interp) appendOp(s Slice, more Value, st types.Type) Value {
	c := in.C
	elem := st.Underlying().(*types.Slice).Elem()
	if w, ok := scalarElem(elem); ok {
		sA, sOff, sLen := in.copySrc(more)
		if sLen.IsConst() && sLen.Uint64() == 0 {
			return s
		}
		newLen := c.BVAdd(s.Len, sLen)
		fits := c.Ule(newLen, s.Cap)
		if s.Base.Obj != 0 && in.branch(fits) {
			res := Slice{Base: s.Base, Off: s.Off, Len: newLen, Cap: s.Cap}
			in.copyInto(res, s.Len, sA, sOff, sLen)
			return res
		}
		// reallocate: capacity is exactly the new length (Go's growth policy is unspecified)
		res := in.newScalarSlice(elem, w, newLen, newLen)
		if s.Base.Obj != 0 {
			old, _ := in.sliceArr(s)
			in.copyInto(res, in.u64(0), old.A, s.Off, s.Len)
		}
		in.copyInto(res, s.Len, sA, sOff, sLen)
		return res
	}
	// generic slices: concrete shapes
	ms, ok := more.(Slice)
	if !ok {
		in.unsupported("append of %s", describe(more))
	}
	add := in.sliceElems(ms)
	if len(add) == 0 {
		return s
	}
	ln := in.concretize(s.Len, "append length")
	cp := in.concretize(s.Cap, "append capacity")
	if s.Base.Obj != 0 && ln+uint64(len(add)) <= cp {
		res := Slice{Base: s.Base, Off: s.Off, Len: in.u64(ln + uint64(len(add))), Cap: s.Cap}
		for i, v := range add {
			in.sliceSet(res, in.u64(ln+uint64(i)), v)
		}
		return res
	}
	old := make([]Value, ln)
	for i := uint64(0); i < ln; i++ {
		old[i] = in.sliceGet(s, in.u64(i))
	}
	n := int(ln) + len(add)
	res := in.newGenericSlice(elem, n, n)
	for i, v := range append(old, add...) {
		in.sliceSet(res, in.u64(uint64(i)), v)
	}
	return res
}

// ---- goroutines and channels (run-to-completion task model)

type chanState struct {
	buf    []Value
	cap    int
	closed bool
	nondet bool // a ctx.Done() channel: may become closed at any observation (fork)
}

func (in *Interp) chanState(c ChanV) *chanState { return in.heap[c.Obj].V.(*chanState) }

func (in *Interp) spawn(fr *frame, cc *ssa.CallCommon) {
	fn, args := in.prepareCall(fr, cc)
	name := "?"
	if f, ok := fn.(Func); ok && f.Fn != nil {
		name = in.fname(f.Fn)
	} else if cc.IsInvoke() {
		name = cc.Method.Name()
	}
	policy := in.Cfg.GoPolicy
	for _, r := range in.Cfg.GoRules {
		if strings.Contains(name, r[0]) {
			policy = r[1]
			break
		}
	}
	switch policy {
	case "inline":
		in.taskDepth++
		in.invoke(fn, args, cc, nil)
		in.taskDepth--
	case "after", "pending":
		in.tasks = append(in.tasks, &task{fn: fn, args: args, call: cc, name: name, after: policy == "after" && in.Cfg.GoPolicy != "after"})
	case "drop":
		in.Rep.StubsHit["go-drop:"+name]++
	default:
		in.unsupported("go statement (%s) without //verif:go policy", name)
	}
}

// runOneTask runs one pending task chosen by a fork; returns false when none is pending.
func (in *Interp) runOneTask() bool { return in.runTask(false) }

// runTask runs one task chosen by a fork. Tasks marked "after" (consumers that must wait for their
// producer) are only eligible when draining (WaitGroup.Wait / end of the harness).
func (in *Interp) runTask(includeAfter bool) bool {
	var idx []int
	for i, t := range in.tasks {
		if includeAfter || !t.after {
			idx = append(idx, i)
		}
	}
	if len(idx) == 0 {
		return false
	}
	k := idx[in.choose(len(idx))]
	t := in.tasks[k]
	in.tasks = append(append([]*task(nil), in.tasks[:k]...), in.tasks[k+1:]...)
	in.taskDepth++
	in.invoke(t.fn, t.args, t.call, nil)
	in.taskDepth--
	return true
}

func (in *Interp) drainTasks() {
	for in.runTask(false) {
	}
	for in.runTask(true) {
	}
}

func (in *Interp) chanSend(ch ChanV, v Value) {
	if ch.Obj == 0 {
		in.unsupported("send on nil channel blocks forever")
	}
	st := in.chanState(ch)
	if st.closed {
		in.raise("send on closed channel", nil)
	}
	limit := st.cap
	if limit == 0 {
		limit = 1
	}
	if len(st.buf) >= limit {
		in.unsupported("blocking send on full channel (task model)")
	}
	st.buf = append(st.buf, v)
}

func (in *Interp) chanRecv(ch ChanV, et types.Type) (Value, bool) {
	if ch.Obj == 0 {
		in.unsupported("receive on nil channel blocks forever")
	}
	for {
		st := in.chanState(ch)
		if len(st.buf) > 0 {
			v := st.buf[0]
			st.buf = st.buf[1:]
			return v, true
		}
		if st.closed {
			return in.zero(et), false
		}
		if st.nondet && len(in.tasks) == 0 {
			st.closed = true
			continue
		}
		if !in.runOneTask() {
			in.unsupported("blocking receive with no pending task (deadlock in task model)")
		}
	}
}

func (in *Interp) execSelect(fr *frame, s *ssa.Select) Value {
	// result tuple: (index int, recvOk bool, r_0 T_0, ... r_n-1 T_n-1) for receive states
	type st struct {
		idx   int
		ch    ChanV
		send  Value
		isRcv bool
		et    types.Type
	}
	var states []st
	for i, sc := range s.States {
		ch := in.get(fr, sc.Chan).(ChanV)
		e := st{idx: i, ch: ch, isRcv: sc.Dir == types.RecvOnly}
		if !e.isRcv {
			e.send = in.get(fr, sc.Send)
		} else {
			e.et = sc.Chan.Type().Underlying().(*types.Chan).Elem()
		}
		states = append(states, e)
	}
	mk := func(idx int, ok bool, rcvIdx int, val Value) Value {
		tv := Tuple{BV{in.i64(int64(idx))}, BV{in.C.Bool(ok)}}
		for _, e := range states {
			if e.isRcv {
				if e.idx == rcvIdx {
					tv = append(tv, val)
				} else {
					tv = append(tv, in.zero(e.et))
				}
			}
		}
		return tv
	}
	for {
		var ready []st
		for _, e := range states {
			if e.ch.Obj == 0 {
				continue
			}
			cs := in.chanState(e.ch)
			if e.isRcv {
				if cs.nondet && !cs.closed && in.Cfg.CtxPolicy == "nondet" {
					if in.choose(2) == 1 {
						cs.closed = true
					}
				}
				if len(cs.buf) > 0 || cs.closed {
					ready = append(ready, e)
				}
			} else {
				limit := cs.cap
				if limit == 0 {
					limit = 1
				}
				if len(cs.buf) < limit && !cs.closed {
					ready = append(ready, e)
				}
			}
		}
		if len(ready) > 0 {
			e := ready[in.choose(len(ready))]
			if e.isRcv {
				v, ok := in.chanRecv(e.ch, e.et)
				return mk(e.idx, ok, e.idx, v)
			}
			in.chanSend(e.ch, e.send)
			return mk(e.idx, false, -1, nil)
		}
		if !s.Blocking {
			return mk(-1, false, -1, nil)
		}
		if !in.runOneTask() {
			in.unsupported("blocking select with no ready case and no pending task")
		}
	}
}
