package symgo

import (
	"go/token"
	"go/types"

	"golang.org/x/tools/go/ssa"

	"verif/engine/smt"
)

// If-conversion of pure regions (short-circuit conditions, min/max style diamonds): instead of
// forking, both arms are evaluated and the phis at the join block become ite terms.

func pureInstr(instr ssa.Instruction) bool {
	switch i := instr.(type) {
	case *ssa.DebugRef:
		return true
	case *ssa.BinOp:
		switch i.Op {
		case token.QUO, token.REM:
			return false
		case token.SHL, token.SHR:
			if _, signed, ok := intWidth(i.Y.Type()); ok && signed {
				_, isConst := i.Y.(*ssa.Const)
				return isConst
			}
			return true
		case token.EQL, token.NEQ:
			// comparisons of strings / interfaces / arrays may need forks
			switch i.X.Type().Underlying().(type) {
			case *types.Basic:
				return !isString(i.X.Type())
			case *types.Pointer:
				return true
			}
			return false
		case token.ADD:
			return !isString(i.X.Type())
		}
		return !isString(i.X.Type())
	case *ssa.UnOp:
		switch i.Op {
		case token.NOT, token.SUB, token.XOR:
			return true
		}
		return false
	case *ssa.Convert:
		_, _, ok1 := intWidth(i.X.Type())
		_, _, ok2 := intWidth(i.Type())
		return ok1 && ok2
	case *ssa.ChangeType, *ssa.ChangeInterface, *ssa.Extract, *ssa.Field, *ssa.MakeInterface:
		return true
	case *ssa.Call:
		if f := i.Call.StaticCallee(); f != nil && f.Pkg != nil && f.Pkg.Pkg.Path() == "math/bits" {
			switch f.Name() {
			case "LeadingZeros8", "LeadingZeros16", "LeadingZeros32", "LeadingZeros64", "LeadingZeros",
				"Len8", "Len16", "Len32", "Len64", "Len", "TrailingZeros8", "TrailingZeros16", "TrailingZeros32",
				"TrailingZeros64", "TrailingZeros", "OnesCount8", "OnesCount16", "OnesCount32", "OnesCount64", "OnesCount":
				return true // engine intrinsics: total, no side effects
			}
		}
		if b, ok := i.Call.Value.(*ssa.Builtin); ok {
			if b.Name() == "len" || b.Name() == "cap" {
				switch i.Call.Args[0].Type().Underlying().(type) {
				case *types.Slice, *types.Basic, *types.Array:
					return true
				}
			}
		}
		return false
	}
	return false
}

func pureBlock(b *ssa.BasicBlock) bool {
	if len(b.Instrs) > 24 {
		return false
	}
	for k, instr := range b.Instrs {
		if k == len(b.Instrs)-1 {
			switch instr.(type) {
			case *ssa.Jump, *ssa.If:
				return true
			}
			return false
		}
		if _, isPhi := instr.(*ssa.Phi); isPhi {
			return false
		}
		if !pureInstr(instr) {
			return false
		}
	}
	return false
}

type mergeEdge struct {
	from  *ssa.BasicBlock
	guard *smt.Term
}

// tryMerge attempts to if-convert the region below the If terminating block b.
// On success the phis of the join block have been assigned and the join block is returned.
func (in *Interp) tryMerge(fr *frame, b *ssa.BasicBlock, cond *smt.Term) (*ssa.BasicBlock, bool) {
	if in.noMerge {
		return nil, false
	}
	region := map[*ssa.BasicBlock]bool{}
	var order []*ssa.BasicBlock
	// discover region: single-predecessor pure blocks reachable from b
	work := []*ssa.BasicBlock{b.Succs[0], b.Succs[1]}
	for len(work) > 0 {
		x := work[0]
		work = work[1:]
		if x == b || region[x] || len(x.Preds) != 1 || !pureBlock(x) {
			continue
		}
		if len(order) >= 12 {
			return nil, false
		}
		region[x] = true
		order = append(order, x)
		work = append(work, x.Succs...)
	}
	// exits
	var join *ssa.BasicBlock
	check := func(x *ssa.BasicBlock) bool {
		for _, s := range x.Succs {
			if region[s] {
				continue
			}
			if join == nil {
				join = s
			} else if join != s {
				return false
			}
		}
		return true
	}
	if !check(b) {
		return nil, false
	}
	for _, x := range order {
		if !check(x) {
			return nil, false
		}
	}
	if join == nil || join == b {
		return nil, false
	}
	// the join must start with phis or be reached by a unique value flow; evaluate the region
	guardOf := map[*ssa.BasicBlock]*smt.Term{}
	var edges []mergeEdge
	addEdge := func(from, to *ssa.BasicBlock, g *smt.Term) {
		if region[to] {
			guardOf[to] = g
		} else {
			edges = append(edges, mergeEdge{from: from, guard: g})
		}
	}
	addEdge(b, b.Succs[0], cond)
	addEdge(b, b.Succs[1], in.C.Not(cond))
	ok := true
	func() {
		defer func() {
			if r := recover(); r != nil {
				// any signal while speculating aborts the merge (nothing but env was written)
				ok = false
			}
		}()
		for _, x := range order {
			g, has := guardOf[x]
			if !has {
				ok = false
				return
			}
			for _, instr := range x.Instrs[:len(x.Instrs)-1] {
				in.execInstr(fr, instr)
			}
			switch t := x.Instrs[len(x.Instrs)-1].(type) {
			case *ssa.Jump:
				addEdge(x, x.Succs[0], g)
			case *ssa.If:
				c2, isBV := in.get(fr, t.Cond).(BV)
				if !isBV {
					ok = false
					return
				}
				addEdge(x, x.Succs[0], in.C.And(g, c2.T))
				addEdge(x, x.Succs[1], in.C.And(g, in.C.Not(c2.T)))
			}
		}
	}()
	if !ok {
		return nil, false
	}
	// phis at the join
	var phis []*ssa.Phi
	for _, instr := range join.Instrs {
		p, isPhi := instr.(*ssa.Phi)
		if !isPhi {
			break
		}
		phis = append(phis, p)
	}
	vals := make([]Value, len(phis))
	for pi, p := range phis {
		var acc Value
		for k := len(edges) - 1; k >= 0; k-- {
			e := edges[k]
			idx := -1
			for i, pr := range join.Preds {
				if pr == e.from {
					idx = i
					break
				}
			}
			if idx < 0 {
				return nil, false
			}
			v := in.get(fr, p.Edges[idx])
			if acc == nil {
				acc = v
				continue
			}
			m, mok := in.iteValue(e.guard, v, acc)
			if !mok {
				return nil, false
			}
			acc = m
		}
		vals[pi] = acc
	}
	for pi, p := range phis {
		fr.env[p] = vals[pi]
	}
	in.Rep.Merges++
	return join, true
}
