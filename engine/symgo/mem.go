package symgo

import (
	"fmt"
	"go/types"

	"verif/engine/smt"
)

// Float: concrete float, or a symbolic float derived from an integer term (Kind int | log2int).
type Float struct {
	V    float64
	Sym  *smt.Term
	Kind string
}

func (in *Interp) newObj(v Value, t types.Type) int {
	id := in.nextObj
	in.nextObj++
	in.heap[id] = &Object{V: v, T: t}
	return id
}

func (in *Interp) i64(v int64) *smt.Term  { return in.C.BVInt(64, v) }
func (in *Interp) u64(v uint64) *smt.Term { return in.C.BV(64, v) }

// zero builds the zero value of a type.
func (in *Interp) zero(t types.Type) Value {
	switch u := t.Underlying().(type) {
	case *types.Basic:
		if w, _, ok := intWidth(u); ok {
			return BV{in.C.BV(w, 0)}
		}
		if isBool(u) {
			return BV{in.C.False}
		}
		if isString(u) {
			return Str{A: &cellsArr{w: 8}, Off: in.u64(0), Len: in.u64(0)}
		}
		if isFloat(u) {
			return Float{V: 0}
		}
		if u.Kind() == types.UnsafePointer {
			return Ptr{}
		}
		if u.Kind() == types.UntypedNil {
			return Ptr{}
		}
		if u.Kind() == types.Invalid {
			return nil
		}
	case *types.Pointer:
		return Ptr{}
	case *types.Slice:
		return Slice{Off: in.u64(0), Len: in.u64(0), Cap: in.u64(0)}
	case *types.Map:
		return MapV{}
	case *types.Chan:
		return ChanV{}
	case *types.Signature:
		return Func{}
	case *types.Interface:
		return Iface{}
	case *types.Struct:
		f := make([]Value, u.NumFields())
		for i := range f {
			f[i] = in.zero(u.Field(i).Type())
		}
		return Struct{F: f}
	case *types.Array:
		n := u.Len()
		if w, ok := scalarElem(u.Elem()); ok {
			if n <= 4096 {
				return SArray{A: newCells(in.C, int(n), w), W: w, N: in.u64(uint64(n))}
			}
			return SArray{A: &zeroArr{w: w}, W: w, N: in.u64(uint64(n))}
		}
		if n > 1<<16 {
			in.unsupported("zero value of huge array %s", t)
		}
		cells := make([]Value, n)
		if n > 0 {
			z := in.zero(u.Elem())
			for i := range cells {
				cells[i] = z
			}
		}
		return Array{Cells: cells}
	case *types.Tuple:
		tv := make(Tuple, u.Len())
		for i := range tv {
			tv[i] = in.zero(u.At(i).Type())
		}
		return tv
	}
	in.unsupported("zero value of %s", t)
	return nil
}

// ---- load / store through pointer paths

func (in *Interp) sel(v Value, s Sel) Value {
	if s.Idx == nil {
		st, ok := v.(Struct)
		if !ok {
			in.unsupported("field selection on %s", describe(v))
		}
		return st.F[s.Field]
	}
	switch a := v.(type) {
	case Array:
		if !s.Idx.IsConst() && !a.Partial && len(a.Cells) >= 1 && len(a.Cells) <= 64 {
			// symbolic index: ite-merge the cells when they are mergeable (no fork)
			acc := a.Cells[len(a.Cells)-1]
			ok := true
			for k := len(a.Cells) - 2; k >= 0 && ok; k-- {
				acc, ok = in.iteValue(in.C.Eq(s.Idx, in.u64(uint64(k))), a.Cells[k], acc)
			}
			if ok {
				return acc
			}
		}
		i := in.concretize(s.Idx, "array index")
		if i >= uint64(len(a.Cells)) {
			in.unsupported("internal: array index %d out of %d", i, len(a.Cells))
		}
		return a.Cells[i]
	case SArray:
		return BV{a.A.Read(in.C, s.Idx)}
	}
	in.unsupported("index selection on %s", describe(v))
	return nil
}

func (in *Interp) load(p Ptr) Value {
	if p.Obj == 0 {
		in.raise("nil pointer dereference", nil)
	}
	o := in.heap[p.Obj]
	if o == nil {
		in.unsupported("internal: dangling object %d", p.Obj)
	}
	v := o.V
	for _, s := range p.Path {
		v = in.sel(v, s)
	}
	return v
}

func (in *Interp) update(v Value, path []Sel, val Value) Value {
	if len(path) == 0 {
		return val
	}
	s := path[0]
	if s.Idx == nil {
		st, ok := v.(Struct)
		if !ok {
			in.unsupported("field update on %s", describe(v))
		}
		nf := make([]Value, len(st.F))
		copy(nf, st.F)
		nf[s.Field] = in.update(nf[s.Field], path[1:], val)
		return Struct{F: nf}
	}
	switch a := v.(type) {
	case Array:
		i := in.concretize(s.Idx, "array index")
		if i >= uint64(len(a.Cells)) {
			in.unsupported("internal: array index %d out of %d", i, len(a.Cells))
		}
		nc := make([]Value, len(a.Cells))
		copy(nc, a.Cells)
		nc[i] = in.update(nc[i], path[1:], val)
		return Array{Cells: nc, Partial: a.Partial}
	case SArray:
		if len(path) != 1 {
			in.unsupported("internal: path below scalar array")
		}
		bv, ok := val.(BV)
		if !ok {
			in.unsupported("internal: non-scalar store into scalar array: %s", describe(val))
		}
		return SArray{A: arrWrite(in.C, a.A, s.Idx, bv.T), W: a.W, N: a.N}
	}
	in.unsupported("index update on %s", describe(v))
	return nil
}

func (in *Interp) store(p Ptr, val Value) {
	if p.Obj == 0 {
		in.raise("nil pointer dereference", nil)
	}
	o := in.heap[p.Obj]
	o.V = in.update(o.V, p.Path, val)
}

// ---- slices

func (in *Interp) isNilSlice(s Slice) bool { return s.Base.Obj == 0 }

// sliceArr returns the backing scalar array of a scalar slice.
func (in *Interp) sliceArr(s Slice) (SArray, bool) {
	if s.Base.Obj == 0 {
		return SArray{}, false
	}
	v := in.load(s.Base)
	sa, ok := v.(SArray)
	return sa, ok
}

// newScalarSlice allocates a fresh backing array of n elements (n may be symbolic).
func (in *Interp) newScalarSlice(elem types.Type, w int, n *smt.Term, capT *smt.Term) Slice {
	var a ArrayTerm
	if capT.IsConst() && capT.Uint64() <= 4096 {
		a = newCells(in.C, int(capT.Uint64()), w)
	} else {
		a = &zeroArr{w: w}
	}
	obj := in.newObj(SArray{A: a, W: w, N: capT}, types.NewSlice(elem))
	return Slice{Base: Ptr{Obj: obj}, Off: in.u64(0), Len: n, Cap: capT}
}

func (in *Interp) newGenericSlice(elem types.Type, n, capN int) Slice {
	cells := make([]Value, capN)
	if capN > 0 {
		z := in.zero(elem)
		for i := range cells {
			cells[i] = z
		}
	}
	obj := in.newObj(Array{Cells: cells}, types.NewSlice(elem))
	return Slice{Base: Ptr{Obj: obj}, Off: in.u64(0), Len: in.u64(uint64(n)), Cap: in.u64(uint64(capN))}
}

// sliceGet reads element i (term) of a slice; bounds must have been checked.
func (in *Interp) sliceGet(s Slice, i *smt.Term) Value {
	return in.load(s.Base.Extend(Sel{Idx: in.C.BVAdd(s.Off, i)}))
}

func (in *Interp) sliceSet(s Slice, i *smt.Term, v Value) {
	in.store(s.Base.Extend(Sel{Idx: in.C.BVAdd(s.Off, i)}), v)
}

// sliceElems returns the elements of a generic (or scalar) slice with concretized length.
func (in *Interp) sliceElems(s Slice) []Value {
	n := in.concretize(s.Len, "slice length")
	out := make([]Value, n)
	for i := uint64(0); i < n; i++ {
		out[i] = in.sliceGet(s, in.u64(i))
	}
	return out
}

// bytesOf gives (array term, offset, len) view of a scalar slice or string value.
func (in *Interp) bytesOf(v Value) (ArrayTerm, *smt.Term, *smt.Term) {
	switch x := v.(type) {
	case Slice:
		if x.Base.Obj == 0 {
			return &cellsArr{w: 8}, in.u64(0), in.u64(0)
		}
		sa, ok := in.sliceArr(x)
		if !ok {
			in.unsupported("bytesOf on non-scalar slice")
		}
		return sa.A, x.Off, x.Len
	case Str:
		return x.A, x.Off, x.Len
	}
	in.unsupported("bytesOf on %s", describe(v))
	return nil, nil, nil
}

// copyInto performs dst[dOff..] = src[..n] on a scalar slice's backing store.
func (in *Interp) copyInto(dst Slice, dIdx *smt.Term, srcA ArrayTerm, sOff, n *smt.Term) {
	if n.IsConst() && n.Uint64() == 0 {
		return
	}
	sa, ok := in.sliceArr(dst)
	if !ok {
		in.unsupported("copy into non-scalar slice")
	}
	na := arrCopy(in.C, sa.A, in.C.BVAdd(dst.Off, dIdx), srcA, sOff, n)
	in.store(dst.Base, SArray{A: na, W: sa.W, N: sa.N})
}

// umin returns the unsigned minimum of two 64-bit terms.
func (in *Interp) umin(a, b *smt.Term) *smt.Term {
	return in.C.Ite(in.C.Ule(a, b), a, b)
}

// ---- strings

func (in *Interp) constStr(s string) Str {
	ca := in.strConsts[s]
	if ca == nil {
		cells := make([]*smt.Term, len(s))
		for i := 0; i < len(s); i++ {
			cells[i] = in.C.BV(8, uint64(s[i]))
		}
		ca = &cellsArr{cells: cells, w: 8}
		in.strConsts[s] = ca
	}
	return Str{A: ca, Off: in.u64(0), Len: in.u64(uint64(len(s)))}
}

func (in *Interp) concreteString(s Str) (string, bool) {
	if !s.Len.IsConst() || !s.Off.IsConst() {
		return "", false
	}
	n := s.Len.Uint64()
	if n > 1<<16 {
		return "", false
	}
	b := make([]byte, n)
	for i := uint64(0); i < n; i++ {
		t := s.A.Read(in.C, in.C.BVAdd(s.Off, in.u64(i)))
		if !t.IsConst() {
			return "", false
		}
		b[i] = byte(t.Uint64())
	}
	return string(b), true
}

// seqEqual compares two byte sequences; lengths are concretized when symbolic.
func (in *Interp) seqEqual(aA ArrayTerm, aOff, aLen *smt.Term, bA ArrayTerm, bOff, bLen *smt.Term) *smt.Term {
	lenEq := in.C.Eq(aLen, bLen)
	if lenEq.IsFalse() {
		return in.C.False
	}
	var n uint64
	if aLen.IsConst() {
		n = aLen.Uint64()
	} else if bLen.IsConst() {
		n = bLen.Uint64()
	} else {
		if !in.branch(lenEq) {
			return in.C.False
		}
		lenEq = in.C.True
		n = in.concretize(aLen, "length in sequence comparison")
	}
	if n > maxCells {
		in.unsupported("sequence comparison of %d elements", n)
	}
	if x, ok := in.packCells(aA, aOff, n); ok {
		if y, ok := in.packCells(bA, bOff, n); ok && x.Sort == y.Sort {
			return in.C.And(lenEq, in.C.Eq(x, y))
		}
	}
	conj := []*smt.Term{lenEq}
	for i := uint64(0); i < n; i++ {
		x := aA.Read(in.C, in.C.BVAdd(aOff, in.u64(i)))
		y := bA.Read(in.C, in.C.BVAdd(bOff, in.u64(i)))
		conj = append(conj, in.C.Eq(x, y))
	}
	return in.C.And(conj...)
}

// ---- value equality (==)

func (in *Interp) valuesEqual(a, b Value) *smt.Term {
	switch x := a.(type) {
	case BV:
		y, ok := b.(BV)
		if !ok {
			in.unsupported("== on mismatched values %s %s", describe(a), describe(b))
		}
		return in.C.Eq(x.T, y.T)
	case Float:
		return in.C.Bool(x.V == b.(Float).V)
	case Ptr:
		y, ok := b.(Ptr)
		if !ok {
			in.unsupported("== on mismatched values %s %s", describe(a), describe(b))
		}
		return in.ptrEqual(x, y)
	case Str:
		y := b.(Str)
		return in.seqEqual(x.A, x.Off, x.Len, y.A, y.Off, y.Len)
	case Iface:
		y, ok := b.(Iface)
		if !ok {
			in.unsupported("== on mismatched values %s %s", describe(a), describe(b))
		}
		if x.T == nil || y.T == nil {
			return in.C.Bool(x.T == nil && y.T == nil)
		}
		if !types.Identical(x.T, y.T) {
			return in.C.False
		}
		return in.valuesEqual(x.V, y.V)
	case Struct:
		y := b.(Struct)
		conj := []*smt.Term{}
		for i := range x.F {
			conj = append(conj, in.valuesEqual(x.F[i], y.F[i]))
		}
		return in.C.And(conj...)
	case Array:
		y := b.(Array)
		conj := []*smt.Term{}
		for i := range x.Cells {
			conj = append(conj, in.valuesEqual(x.Cells[i], y.Cells[i]))
		}
		return in.C.And(conj...)
	case SArray:
		y := b.(SArray)
		return in.seqEqual(x.A, in.u64(0), x.N, y.A, in.u64(0), y.N)
	case MapV:
		return in.C.Bool(x.Obj == b.(MapV).Obj)
	case ChanV:
		return in.C.Bool(x.Obj == b.(ChanV).Obj)
	case Opaque:
		y, ok := b.(Opaque)
		return in.C.Bool(ok && x.ID == y.ID)
	case Func:
		y := b.(Func)
		return in.C.Bool(x.Fn == y.Fn && x.B == y.B && len(x.Binds) == 0 && len(y.Binds) == 0)
	case Slice:
		// only comparison with nil is legal
		y := b.(Slice)
		return in.C.Bool(x.Base.Obj == 0 && y.Base.Obj == 0)
	}
	in.unsupported("== on %s", describe(a))
	return nil
}

func (in *Interp) ptrEqual(x, y Ptr) *smt.Term {
	if x.Obj != y.Obj {
		return in.C.False
	}
	if len(x.Path) != len(y.Path) {
		return in.C.False
	}
	conj := []*smt.Term{}
	for i := range x.Path {
		a, b := x.Path[i], y.Path[i]
		if (a.Idx == nil) != (b.Idx == nil) {
			return in.C.False
		}
		if a.Idx == nil {
			if a.Field != b.Field {
				return in.C.False
			}
		} else {
			conj = append(conj, in.C.Eq(a.Idx, b.Idx))
		}
	}
	return in.C.And(conj...)
}

// ---- ite over values (used by map lookups)

func (in *Interp) iteValue(c *smt.Term, a, b Value) (Value, bool) {
	if c.IsTrue() {
		return a, true
	}
	if c.IsFalse() {
		return b, true
	}
	switch x := a.(type) {
	case BV:
		y, ok := b.(BV)
		if !ok || x.T.Sort != y.T.Sort {
			return nil, false
		}
		return BV{in.C.Ite(c, x.T, y.T)}, true
	case Struct:
		y, ok := b.(Struct)
		if !ok || len(x.F) != len(y.F) {
			return nil, false
		}
		nf := make([]Value, len(x.F))
		for i := range nf {
			v, ok := in.iteValue(c, x.F[i], y.F[i])
			if !ok {
				return nil, false
			}
			nf[i] = v
		}
		return Struct{F: nf}, true
	case SArray:
		y, ok := b.(SArray)
		if !ok || !x.N.IsConst() || !y.N.IsConst() || x.N.Uint64() != y.N.Uint64() || x.N.Uint64() > 64 {
			return nil, false
		}
		n := int(x.N.Uint64())
		if px, ok := in.packCells(x.A, in.u64(0), uint64(n)); ok {
			if py, ok := in.packCells(y.A, in.u64(0), uint64(n)); ok && px.Sort == py.Sort {
				w := in.C.Ite(c, px, py)
				cells := make([]*smt.Term, n)
				tw := px.Sort.W
				for i := 0; i < n; i++ {
					cells[i] = in.C.Extract(w, tw-1-i*x.W, tw-(i+1)*x.W)
				}
				return SArray{A: &cellsArr{cells: cells, w: x.W}, W: x.W, N: x.N}, true
			}
		}
		cells := make([]*smt.Term, n)
		for i := 0; i < n; i++ {
			idx := in.u64(uint64(i))
			cells[i] = in.C.Ite(c, x.A.Read(in.C, idx), y.A.Read(in.C, idx))
		}
		return SArray{A: &cellsArr{cells: cells, w: x.W}, W: x.W, N: x.N}, true
	case Ptr:
		y, ok := b.(Ptr)
		if ok && in.ptrEqual(x, y).IsTrue() {
			return x, true
		}
	case Slice:
		y, ok := b.(Slice)
		if ok && in.ptrEqual(x.Base, y.Base).IsTrue() {
			return Slice{Base: x.Base, Off: in.C.Ite(c, x.Off, y.Off), Len: in.C.Ite(c, x.Len, y.Len), Cap: in.C.Ite(c, x.Cap, y.Cap)}, true
		}
	case Iface:
		y, ok := b.(Iface)
		if ok && x.T == nil && y.T == nil {
			return x, true
		}
		if ok && x.T != nil && y.T != nil && types.Identical(x.T, y.T) {
			v, ok := in.iteValue(c, x.V, y.V)
			if ok {
				return Iface{T: x.T, V: v}, true
			}
		}
	}
	return nil, false
}

// ---- maps

type mapEntry struct {
	k, v    Value
	deleted bool
}

type mapState struct {
	entries []mapEntry
	kt, vt  types.Type
}

func (in *Interp) mapState(m MapV) *mapState {
	return in.heap[m.Obj].V.(*mapState)
}

func (in *Interp) cloneMapForWrite(m MapV) *mapState {
	ms := in.mapState(m)
	return ms
}

// mapLookup returns (value, ok-term).
func (in *Interp) mapLookup(m MapV, k Value, vt types.Type) (Value, *smt.Term) {
	if m.Obj == 0 {
		return in.zero(vt), in.C.False
	}
	ms := in.mapState(m)
	res := in.zero(vt)
	found := in.C.False
	// oldest to newest so that newer entries override
	for _, e := range ms.entries {
		eq := in.valuesEqual(e.k, k)
		if eq.IsFalse() {
			continue
		}
		if e.deleted {
			nv, ok := in.iteValue(eq, in.zero(vt), res)
			if !ok {
				if in.branch(eq) {
					nv = in.zero(vt)
					eq = in.C.True
				} else {
					continue
				}
			}
			res = nv
			found = in.C.And(found, in.C.Not(eq))
			continue
		}
		nv, ok := in.iteValue(eq, e.v, res)
		if !ok {
			if in.branch(eq) {
				nv = e.v
				eq = in.C.True
			} else {
				continue
			}
		}
		res = nv
		found = in.C.Or(found, eq)
	}
	return res, found
}

func (in *Interp) mapUpdate(m MapV, k, v Value) {
	if m.Obj == 0 {
		in.raise("assignment to entry in nil map", nil)
	}
	ms := in.mapState(m)
	// drop an older entry with a syntactically identical key to keep lists short
	ne := make([]mapEntry, 0, len(ms.entries)+1)
	for _, e := range ms.entries {
		if in.valuesEqual(e.k, k).IsTrue() {
			continue
		}
		ne = append(ne, e)
	}
	ne = append(ne, mapEntry{k: k, v: v})
	in.heap[m.Obj].V = &mapState{entries: ne, kt: ms.kt, vt: ms.vt}
}

func (in *Interp) mapDelete(m MapV, k Value) {
	if m.Obj == 0 {
		return
	}
	ms := in.mapState(m)
	ne := make([]mapEntry, 0, len(ms.entries)+1)
	any := false
	for _, e := range ms.entries {
		eq := in.valuesEqual(e.k, k)
		if eq.IsTrue() {
			continue
		}
		if !eq.IsFalse() {
			any = true
		}
		ne = append(ne, e)
	}
	if any {
		ne = append(ne, mapEntry{k: k, deleted: true})
	}
	in.heap[m.Obj].V = &mapState{entries: ne, kt: ms.kt, vt: ms.vt}
}

// mapLive returns the live (key,value) pairs, forking on key equalities where undetermined.
func (in *Interp) mapLive(m MapV) ([]Value, []Value) {
	if m.Obj == 0 {
		return nil, nil
	}
	ms := in.mapState(m)
	var ks, vs []Value
	for i, e := range ms.entries {
		if e.deleted {
			continue
		}
		shadowed := false
		for j := i + 1; j < len(ms.entries); j++ {
			eq := in.valuesEqual(e.k, ms.entries[j].k)
			if eq.IsFalse() {
				continue
			}
			if in.branch(eq) {
				shadowed = true
				break
			}
		}
		if !shadowed {
			ks = append(ks, e.k)
			vs = append(vs, e.v)
		}
	}
	return ks, vs
}

func (in *Interp) fmtVal(v Value) string { return fmt.Sprint(describe(v)) }

// packCells returns the wide term whose consecutive byte extracts are exactly the given cells
// (big-endian order), if there is one. Used to keep 256-bit values (hashes) as single terms.
func (in *Interp) packCells(A ArrayTerm, off *smt.Term, n uint64) (*smt.Term, bool) {
	ca, ok := A.(*cellsArr)
	if !ok || !off.IsConst() || n < 2 {
		return nil, false
	}
	o := off.Uint64()
	if o+n > uint64(len(ca.cells)) {
		return nil, false
	}
	first := ca.cells[o]
	if first.Op != smt.OExtract || first.Sort.W != ca.w {
		return nil, false
	}
	x := first.Args[0]
	hi := first.P1
	lo := first.P2
	for i := uint64(1); i < n; i++ {
		c := ca.cells[o+i]
		if c.Op != smt.OExtract || c.Args[0] != x || c.P1 != lo-1 || c.P1-c.P2+1 != ca.w {
			return nil, false
		}
		lo = c.P2
	}
	return in.C.Extract(x, hi, lo), true
}
