package symgo

import (
	"fmt"
	"go/types"

	"golang.org/x/tools/go/ssa"

	"verif/engine/smt"
)

// Value is a symbolic Go value. Values are immutable; updates rebuild the spine.
type Value interface{}

// BV: integers (bit-vector sort of the Go width) and booleans (Bool sort).
type BV struct{ T *smt.Term }

// Sel is one step of a pointer path.
type Sel struct {
	Field int       // struct field index when Idx == nil
	Idx   *smt.Term // array index (64-bit) when non-nil
}

// Ptr points to a location inside a heap object. Obj == 0 is nil.
type Ptr struct {
	Obj  int
	Path []Sel
}

// Slice: Base points to an array-valued location. Nil slice: Base.Obj==0.
type Slice struct {
	Base          Ptr
	Off, Len, Cap *smt.Term
}

// Str: immutable byte sequence.
type Str struct {
	A        ArrayTerm
	Off, Len *smt.Term
}

type Iface struct {
	T types.Type // nil => nil interface
	V Value
}

type Func struct {
	Fn    *ssa.Function // nil => nil func (unless Builtin / Noop)
	Binds []Value
	B     *ssa.Builtin
	Noop  bool // engine-made function value that does nothing (e.g. context.CancelFunc)
	// CancelCh != 0: engine-made context.CancelFunc that closes that done-channel object
	CancelCh int
}

type MapV struct{ Obj int }
type ChanV struct{ Obj int }

type Struct struct{ F []Value }

// Array: generic array value (cells of arbitrary values, concrete length).
// Array: generic array value. Partial marks the backing store of a slice made with a symbolic
// length above partialMakeLimit: only the first len(Cells) elements are materialised, and any access
// beyond them ends the path as unsupported (never silently wrong).
type Array struct {
	Cells   []Value
	Partial bool
}

// SArray: scalar array value (elements are BV of width W); length N may be symbolic.
type SArray struct {
	A ArrayTerm
	W int
	N *smt.Term
}

type Tuple []Value

// Opaque: an environment object without fields. Attributes are memoised by the interpreter.
type Opaque struct {
	ID   int
	Kind string
}

// MapIter / range iterators
type IterV struct{ It *iterState }

type iterState struct {
	isStr bool
	str   Str
	pos   int
	keys  []Value
	vals  []Value
}

func (p Ptr) IsNil() bool { return p.Obj == 0 }

func (p Ptr) Extend(s Sel) Ptr {
	np := make([]Sel, len(p.Path)+1)
	copy(np, p.Path)
	np[len(p.Path)] = s
	return Ptr{Obj: p.Obj, Path: np}
}

func describe(v Value) string {
	switch x := v.(type) {
	case BV:
		if x.T.IsConst() {
			return fmt.Sprintf("%s", x.T.Val.String())
		}
		return fmt.Sprintf("<sym %v>", x.T.Sort)
	case Ptr:
		return fmt.Sprintf("ptr(%d,%v)", x.Obj, len(x.Path))
	case Slice:
		return "slice"
	case Str:
		return "string"
	case Iface:
		if x.T == nil {
			return "nil-iface"
		}
		return "iface(" + x.T.String() + ")"
	case Func:
		if x.Fn != nil {
			return "func " + x.Fn.String()
		}
		return "func"
	case Struct:
		return fmt.Sprintf("struct{%d}", len(x.F))
	case nil:
		return "<nil-value>"
	}
	return fmt.Sprintf("%T", v)
}

// ---- type helpers

func intWidth(t types.Type) (w int, signed bool, ok bool) {
	b, isB := t.Underlying().(*types.Basic)
	if !isB {
		return 0, false, false
	}
	switch b.Kind() {
	case types.Int8:
		return 8, true, true
	case types.Int16:
		return 16, true, true
	case types.Int32:
		return 32, true, true
	case types.Int64, types.Int:
		return 64, true, true
	case types.Uint8:
		return 8, false, true
	case types.Uint16:
		return 16, false, true
	case types.Uint32:
		return 32, false, true
	case types.Uint64, types.Uint, types.Uintptr:
		return 64, false, true
	case types.UntypedInt, types.UntypedRune:
		return 64, true, true
	case types.UnsafePointer:
		return 0, false, false
	}
	return 0, false, false
}

func isBool(t types.Type) bool {
	b, ok := t.Underlying().(*types.Basic)
	return ok && (b.Kind() == types.Bool || b.Kind() == types.UntypedBool)
}

func isString(t types.Type) bool {
	b, ok := t.Underlying().(*types.Basic)
	return ok && (b.Kind() == types.String || b.Kind() == types.UntypedString)
}

func isFloat(t types.Type) bool {
	b, ok := t.Underlying().(*types.Basic)
	return ok && (b.Kind() == types.Float32 || b.Kind() == types.Float64 || b.Kind() == types.UntypedFloat)
}

// scalarElem reports whether arrays of t are modelled as scalar arrays.
func scalarElem(t types.Type) (int, bool) {
	w, _, ok := intWidth(t)
	if ok {
		return w, true
	}
	return 0, false
}

func isInterface(t types.Type) bool {
	_, ok := t.Underlying().(*types.Interface)
	return ok
}
