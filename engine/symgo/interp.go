package symgo

import (
	"fmt"
	"go/types"
	"math/big"
	"os"
	"sort"
	"strings"
	"time"

	"golang.org/x/tools/go/ssa"

	"verif/engine/smt"
)

// ---- configuration of one harness run

type StubKind int

const (
	StubNone StubKind = iota
	StubHavoc
	StubNoop
	StubAttr
)

type UFCfg struct {
	Injective bool
	As        string // UF name shared by several functions (e.g. sha256)
}

type Config struct {
	Name          string
	Harness       *ssa.Function
	Unwind        int
	MaxPaths      int
	TimeoutS      int // per solver query
	MaxSteps      int
	Exec          []string // extra package paths / function names executed for real
	Stubs         map[string]StubKind
	Nilable       map[string]bool
	Models        map[string]*ssa.Function
	UFs           map[string]UFCfg
	GoPolicy      string           // inline | after | drop | error
	GoRules       [][2]string      // (callee substring, policy): first match overrides GoPolicy
	CtxPolicy     string           // never | nondet : behaviour of ctx.Done()
	Params        map[string]int64 // vsParam values for this tier
	Pinned        map[string]*big.Int
	PinnedBytes   map[string]string
	PinChoice     []int64
	InitPkgs      []string
	NoInit        []string
	HavocMax      int  // max length of havoc'd byte slices
	WallS         int  // wall-clock budget of the whole harness run
	CrossCheck    bool // second-solver check of the first discharge of every obligation
	NoAssumeCheck bool // skip the feasibility query after vsAssume (harnesses with hard sat side)
	Solver        string
	Expect        map[string]bool // assertion ids expected to fail (known findings) - informational
	Tier          string
}

// ---- results

type Failure struct {
	Harness   string            `json:"harness"`
	Kind      string            `json:"kind"` // assert | panic | bytes-eq
	ID        string            `json:"id"`
	Site      string            `json:"site"`
	Msg       string            `json:"msg,omitempty"`
	Inputs    map[string]string `json:"inputs"`
	Decisions []int64           `json:"decisions"`
	Stack     []string          `json:"stack,omitempty"`
}

type Obligation struct {
	ID      string `json:"id"`
	Site    string `json:"site"`
	Reached int    `json:"reached"`
	Proved  int    `json:"proved"`
	Failed  int    `json:"failed"`
	Unknown int    `json:"unknown"`
	// cross-check by a second solver (cvc5, one-shot) of the first non-trivial discharge of this
	// obligation on each worker: agreed / inconclusive (timeout) counts; a disagreement is reported
	// as an unknown, never silently dropped
	CrossAgreed int `json:"cross_agreed,omitempty"`
	CrossSkip   int `json:"cross_inconclusive,omitempty"`
	crossed     bool
}

type Report struct {
	Harness          string
	Paths            int
	PathsCompleted   int
	PathsAssumeCut   int
	Branches         int
	Forks            int
	Merges           int
	PanicChecks      int // symbolic runtime checks (bounds, nil, div) decided by the solver
	PanicChecksSafe  int // ... of which the failing side was unsat
	Workers          int
	Steps            int64
	Failures         []*Failure
	Obligations      map[string]*Obligation
	Covers           map[string]bool
	CoverWitness     map[string]map[string]string
	CoverDeclared    map[string]bool
	UnwindFailures   []string
	Unsupported      []string
	Unknowns         []string
	Incomplete       []string
	FuncsExecuted    map[string]string
	StubsHit         map[string]int
	ModelsHit        map[string]int
	UFsHit           map[string]int
	Queries          int
	NSat, NUnsat     int
	NUnknown         int
	SolverTime       time.Duration
	Wall             time.Duration
	Terms            int
	Observations     []string
	Witnesses        []PathWitness
	PortfolioQueries int
	PortfolioTime    time.Duration
	PortfolioWins    map[string]int
	InitNotes        []string
	Samples          []string
}

// ---- control-flow signals (Go panics used for non-local exits)

type goPanic struct {
	kind  string // runtime error kind or "explicit"
	val   Value
	site  string
	stack []string
}

type pathEnd struct {
	reason string // done | assume | unwind | unsupported | violation | budget
	msg    string
}

// ---- interpreter

type Object struct {
	V Value
	T types.Type
}

type frame struct {
	fn        *ssa.Function
	env       map[ssa.Value]Value
	defers    []deferred
	panicking *goPanic
	symIfs    map[ssa.Instruction]int
	callSite  string
	cur       ssa.Instruction
}

type deferred struct {
	fn   Value
	args []Value
	call *ssa.CallCommon
}

type task struct {
	fn    Value
	args  []Value
	call  *ssa.CallCommon
	name  string
	after bool
}

// lockState: a sync.Mutex / sync.RWMutex location as the sequential task model sees it.
type lockState struct {
	writer    bool
	readers   int
	depth     int    // task nesting depth of the (last) acquisition
	site      string // where it was acquired
	untracked bool   // a nested task met it held by an outer one: blocking order not modelled
}

type Interp struct {
	pools     map[string][]Value
	locks     map[string]*lockState
	taskDepth int
	Prog      *ssa.Program
	Cfg       *Config
	C         *smt.Ctx
	S         *smt.Solver
	Rep       *Report

	// per-path state
	heap      map[int]*Object
	nextObj   int
	globals   map[*ssa.Global]int
	pc        []*smt.Term
	prefix    []int64
	decisions []int64
	decIdx    int
	work      [][]int64
	steps     int64
	depth     int
	frames    []*frame
	panicFrs  []*frame
	attrMemo  map[string]Value
	inputs    []inputVar
	tagCount  map[string]int
	ufApps    map[string][]ufApp
	tasks     []*task
	errIDs    map[string]int
	opaqueSeq int
	fnName    map[*ssa.Function]string
	execOK    map[string]bool
	sizes     types.Sizes
	pathCover map[string]bool
	strConsts map[string]*cellsArr
	lenient   int
	built     map[*ssa.Package]bool
	noMerge   bool
	deadline  time.Time
	choiceLog map[string]int
	initDone  map[*ssa.Package]bool
	trace     []traceEv
}

type traceEv struct {
	kind string
	tag  string
	t    *smt.Term
}

// PathWitness: a concrete input vector for one explored path and the observation trace the
// engine predicts for it (compared with a native run: translator validation).
type PathWitness struct {
	Inputs map[string]string `json:"inputs"`
	Trace  string            `json:"trace"`
}

type inputVar struct {
	tag  string
	kind string // bv | bytes
	t    *smt.Term
	arr  *smt.Term // base array for bytes
	lenT *smt.Term
	w    int
}

type ufApp struct {
	args []*smt.Term
	res  *smt.Term
}

func NewInterp(prog *ssa.Program, cfg *Config) (*Interp, error) {
	in := &Interp{Prog: prog, Cfg: cfg}
	in.C = smt.NewCtx()
	kind := cfg.Solver
	if kind == "" {
		kind = "z3-new"
	}
	s, err := smt.NewSolver(kind, in.C, cfg.TimeoutS)
	if err != nil {
		return nil, err
	}
	in.S = s
	in.Rep = &Report{
		Harness:       cfg.Name,
		Obligations:   map[string]*Obligation{},
		Covers:        map[string]bool{},
		CoverWitness:  map[string]map[string]string{},
		CoverDeclared: map[string]bool{},
		FuncsExecuted: map[string]string{},
		StubsHit:      map[string]int{},
		ModelsHit:     map[string]int{},
		UFsHit:        map[string]int{},
	}
	in.fnName = map[*ssa.Function]string{}
	in.built = map[*ssa.Package]bool{}
	in.execOK = map[string]bool{}
	for _, e := range defaultExec {
		in.execOK[e] = true
	}
	for _, e := range cfg.Exec {
		in.execOK[e] = true
	}
	in.sizes = types.SizesFor("gc", "amd64")
	in.strConsts = map[string]*cellsArr{}
	if cfg.Unwind == 0 {
		cfg.Unwind = 8
	}
	if cfg.MaxPaths == 0 {
		cfg.MaxPaths = 20000
		if cfg.Tier == "thorough" {
			cfg.MaxPaths = 1000000
		}
	}
	if cfg.MaxSteps == 0 {
		cfg.MaxSteps = 5_000_000
	}
	if cfg.HavocMax == 0 {
		cfg.HavocMax = 64
	}
	if cfg.WallS == 0 {
		cfg.WallS = 900
		if cfg.Tier == "thorough" {
			cfg.WallS = 3600
		}
	}
	return in, nil
}

func (in *Interp) Close() { in.S.Close() }

// Run explores all paths of the harness.
func (in *Interp) Run() *Report {
	t0 := time.Now()
	in.work = [][]int64{nil}
	if in.Cfg.PinChoice != nil {
		in.work = [][]int64{in.Cfg.PinChoice}
	}
	in.deadline = t0.Add(time.Duration(in.Cfg.WallS) * time.Second)
	for len(in.work) > 0 {
		if time.Now().After(in.deadline) {
			in.Rep.Incomplete = append(in.Rep.Incomplete, fmt.Sprintf("wall budget %ds exhausted after %d paths with %d work items left", in.Cfg.WallS, in.Rep.Paths, len(in.work)))
			break
		}
		if in.Rep.Paths >= in.Cfg.MaxPaths {
			in.Rep.Incomplete = append(in.Rep.Incomplete, fmt.Sprintf("maxpaths %d reached with %d work items left", in.Cfg.MaxPaths, len(in.work)))
			break
		}
		n := len(in.work) - 1
		prefix := in.work[n]
		in.work = in.work[:n]
		in.runPath(prefix)
	}
	in.Rep.Wall = time.Since(t0)
	in.Rep.Queries = in.S.Queries
	in.Rep.NSat = in.S.NSat
	in.Rep.NUnsat = in.S.NUnsat
	in.Rep.NUnknown = in.S.NUnknown
	in.Rep.SolverTime = in.S.Time
	in.Rep.Terms = in.C.NumTerms()
	return in.Rep
}

func (in *Interp) resetPath(prefix []int64) {
	in.heap = map[int]*Object{}
	in.nextObj = 1
	in.globals = map[*ssa.Global]int{}
	in.pc = nil
	in.prefix = prefix
	in.decisions = nil
	in.decIdx = 0
	in.steps = 0
	in.depth = 0
	in.frames = nil
	in.panicFrs = nil
	in.attrMemo = map[string]Value{}
	in.inputs = nil
	in.tagCount = map[string]int{}
	in.ufApps = map[string][]ufApp{}
	in.tasks = nil
	in.locks = map[string]*lockState{}
	in.pools = nil
	in.taskDepth = 0
	in.errIDs = map[string]int{}
	in.opaqueSeq = 0
	in.pathCover = map[string]bool{}
	in.choiceLog = map[string]int{}
	in.initDone = map[*ssa.Package]bool{}
	in.trace = nil
	in.C.ResetFresh()
}

func (in *Interp) runPath(prefix []int64) {
	in.resetPath(prefix)
	in.Rep.Paths++
	defer func() {
		in.Rep.Steps += in.steps
		if Debug {
			fmt.Fprintf(os.Stderr, "[%s] path %d done: decisions=%d steps=%d queries=%d work=%d\n", in.Cfg.Name, in.Rep.Paths, len(in.decisions), in.steps, in.S.Queries, len(in.work))
		}
		r := recover()
		if r == nil {
			in.Rep.PathsCompleted++
			return
		}
		switch e := r.(type) {
		case *pathEnd:
			switch e.reason {
			case "assume":
				in.Rep.PathsAssumeCut++
			case "done", "violation":
				in.Rep.PathsCompleted++
			case "unwind":
				in.Rep.UnwindFailures = appendUniq(in.Rep.UnwindFailures, e.msg)
			case "unsupported":
				in.Rep.Unsupported = appendUniq(in.Rep.Unsupported, e.msg)
			case "budget":
				in.Rep.Incomplete = appendUniq(in.Rep.Incomplete, e.msg)
			}
		case *goPanic:
			// un-recovered Go panic reached the harness: a failure event
			in.Rep.PathsCompleted++
			in.recordFailure("panic", e.kind, e.site, in.describePanic(e), e.stack)
		default:
			panic(r)
		}
	}()
	for _, pp := range in.Cfg.InitPkgs {
		for _, p := range in.Prog.AllPackages() {
			if p.Pkg.Path() == pp && !in.initDone[p] {
				in.initDone[p] = true
				in.runPkgInit(p)
			}
		}
	}
	in.call(in.Cfg.Harness, nil, nil, "harness")
	// run remaining "after" tasks
	in.drainTasks()
	in.checkLocksReleased()
}

func appendUniq(l []string, s string) []string {
	for _, x := range l {
		if x == s {
			return l
		}
	}
	if len(l) > 50 {
		return l
	}
	return append(l, s)
}

func (in *Interp) describePanic(p *goPanic) string {
	if p.kind != "explicit" {
		return p.kind
	}
	switch v := p.val.(type) {
	case Iface:
		if s, ok := v.V.(Str); ok {
			if cs, ok := in.concreteString(s); ok {
				return "panic: " + cs
			}
		}
		if v.T != nil {
			return "panic(" + v.T.String() + ")"
		}
	}
	return "panic"
}

func (in *Interp) unsupported(format string, args ...interface{}) {
	msg := fmt.Sprintf(format, args...)
	if len(in.frames) > 0 {
		msg += " [in " + in.frames[len(in.frames)-1].fn.String() + "]"
	}
	panic(&pathEnd{reason: "unsupported", msg: msg})
}

func (in *Interp) stackTrace() []string {
	var st []string
	for i := len(in.frames) - 1; i >= 0 && len(st) < 12; i-- {
		st = append(st, in.frames[i].fn.String())
	}
	return st
}

// ---- solver interaction

func (in *Interp) checkSat(extra ...*smt.Term) smt.Result {
	if !in.deadline.IsZero() && time.Now().After(in.deadline) {
		panic(&pathEnd{reason: "budget", msg: fmt.Sprintf("wall budget %ds exhausted inside a path", in.Cfg.WallS)})
	}
	as := append(append([]*smt.Term(nil), in.pc...), extra...)
	t0 := time.Now()
	r, _ := in.solve(as, nil)
	if Debug && time.Since(t0) > time.Second {
		fmt.Fprintf(os.Stderr, "[%s] slow query %.1fs -> %v at %s (pc=%d terms=%d)\n", in.Cfg.Name, time.Since(t0).Seconds(), r, in.where(), len(in.pc), in.C.NumTerms())
	}
	return r
}

var Debug = os.Getenv("VERIF_DEBUG") != ""

func (in *Interp) assume(t *smt.Term) {
	if t.IsTrue() {
		return
	}
	in.pc = append(in.pc, t)
}

// nextDecision returns the recorded decision if replaying a prefix.
func (in *Interp) nextDecision() (int64, bool) {
	if in.decIdx < len(in.prefix) {
		d := in.prefix[in.decIdx]
		in.decIdx++
		in.decisions = append(in.decisions, d)
		return d, true
	}
	in.decIdx++
	return 0, false
}

func (in *Interp) record(d int64) { in.decisions = append(in.decisions, d) }

func (in *Interp) fork(alt int64) {
	w := make([]int64, len(in.decisions)-1, len(in.decisions))
	copy(w, in.decisions[:len(in.decisions)-1])
	w = append(w, alt)
	in.work = append(in.work, w)
	in.Rep.Forks++
}

// decision codes for branch: 0 = false (forked), 1 = true (forked), 2 = false (forced), 3 = true (forced)
func (in *Interp) branch(cond *smt.Term) bool {
	if cond.IsTrue() {
		return true
	}
	if cond.IsFalse() {
		return false
	}
	in.Rep.Branches++
	if d, ok := in.nextDecision(); ok {
		switch d {
		case 0:
			in.assume(in.C.Not(cond))
			return false
		case 1:
			in.assume(cond)
			return true
		case 2:
			return false
		case 3:
			return true
		}
		panic("bad branch decision")
	}
	rT := in.checkSat(cond)
	if rT == smt.Unsat {
		in.record(2)
		return false
	}
	rF := in.checkSat(in.C.Not(cond))
	if rF == smt.Unsat {
		in.record(3)
		return true
	}
	if rT == smt.Unknown || rF == smt.Unknown {
		in.Rep.Unknowns = appendUniq(in.Rep.Unknowns, "branch feasibility unknown at "+in.where())
	}
	in.record(1)
	in.fork(0)
	in.assume(cond)
	return true
}

func (in *Interp) where() string {
	if len(in.frames) == 0 {
		return "?"
	}
	return in.frames[len(in.frames)-1].fn.String()
}

// whereLine: the current function with the file:line of the innermost positioned instruction.
func (in *Interp) whereLine() string {
	if len(in.frames) == 0 {
		return "?"
	}
	fr := in.frames[len(in.frames)-1]
	for i := len(in.frames) - 1; i >= 0; i-- {
		f := in.frames[i]
		if f.cur != nil && f.cur.Pos().IsValid() {
			p := in.Prog.Fset.Position(f.cur.Pos())
			return fmt.Sprintf("%s (%s:%d)", fr.fn.String(), shortFile(p.Filename), p.Line)
		}
	}
	return fr.fn.String()
}

// choose forks concretely over 0..n-1 (all assumed feasible).
func (in *Interp) choose(n int) int {
	if n <= 1 {
		return 0
	}
	if d, ok := in.nextDecision(); ok {
		return int(d)
	}
	in.record(0)
	for i := n - 1; i >= 1; i-- {
		in.fork(int64(i))
	}
	return 0
}

const concretizeLimit = 300

// concretize returns a concrete value for t, forking over all feasible values.
func (in *Interp) concretize(t *smt.Term, what string) uint64 {
	if t.IsConst() {
		return t.Uint64()
	}
	if d, ok := in.nextDecision(); ok {
		in.assume(in.C.Eq(t, in.C.BV(t.Sort.W, uint64(d))))
		return uint64(d)
	}
	var vals []uint64
	var excl []*smt.Term
	for {
		as := append(append([]*smt.Term(nil), in.pc...), excl...)
		r, m := in.solve(as, []*smt.Term{t})
		if r == smt.Unsat {
			break
		}
		if r == smt.Unknown {
			in.Rep.Unknowns = appendUniq(in.Rep.Unknowns, "concretize unknown at "+in.where())
			break
		}
		v := m[0].Uint64()
		vals = append(vals, v)
		excl = append(excl, in.C.Ne(t, in.C.BV(t.Sort.W, v)))
		if len(vals) > concretizeLimit {
			in.Rep.Incomplete = appendUniq(in.Rep.Incomplete, fmt.Sprintf("concretization of %s exceeds %d values at %s", what, concretizeLimit, in.where()))
			break
		}
	}
	if len(vals) == 0 {
		panic(&pathEnd{reason: "assume", msg: "infeasible at concretize"})
	}
	sort.Slice(vals, func(i, j int) bool { return vals[i] < vals[j] })
	in.record(int64(vals[0]))
	for i := len(vals) - 1; i >= 1; i-- {
		in.fork(int64(vals[i]))
	}
	in.assume(in.C.Eq(t, in.C.BV(t.Sort.W, vals[0])))
	return vals[0]
}

// ---- failures

func (in *Interp) modelInputs(extra ...*smt.Term) (map[string]string, bool) {
	var ts []*smt.Term
	for _, iv := range in.inputs {
		switch iv.kind {
		case "bv", "wide":
			ts = append(ts, iv.t)
		case "bytes":
			ts = append(ts, iv.lenT)
		}
	}
	as := append(append([]*smt.Term(nil), in.pc...), extra...)
	r, m := in.solve(as, ts)
	if r != smt.Sat {
		return nil, false
	}
	out := map[string]string{}
	for k, v := range in.choiceLog {
		out[k] = fmt.Sprint(v)
	}
	for k, v := range in.Cfg.Params {
		out["param!"+k] = fmt.Sprint(v)
	}
	var pins []*smt.Term
	var byteTs []*smt.Term
	type bref struct {
		tag string
		n   int
	}
	var brefs []bref
	k := 0
	for _, iv := range in.inputs {
		switch iv.kind {
		case "bv":
			out[iv.tag] = "0x" + m[k].Text(16)
			pins = append(pins, in.C.Eq(iv.t, in.C.BVBig(iv.t.Sort.W, m[k])))
			k++
		case "wide":
			out[iv.tag] = fmt.Sprintf("%0*x", iv.t.Sort.W/4, m[k])
			out[iv.tag+"#len"] = fmt.Sprint(iv.t.Sort.W / 8)
			pins = append(pins, in.C.Eq(iv.t, in.C.BVBig(iv.t.Sort.W, m[k])))
			k++
		case "bytes":
			n := int(m[k].Uint64())
			pins = append(pins, in.C.Eq(iv.lenT, in.C.BVBig(64, m[k])))
			k++
			out[iv.tag+"#len"] = fmt.Sprint(n)
			if n > 4096 {
				n = 4096
			}
			for j := 0; j < n; j++ {
				byteTs = append(byteTs, in.C.Select(iv.arr, in.C.BV(64, uint64(j))))
			}
			brefs = append(brefs, bref{iv.tag, n})
		}
	}
	if len(byteTs) > 0 {
		as2 := append(as, pins...)
		r2, m2 := in.solve(as2, byteTs)
		if r2 == smt.Sat {
			k := 0
			for _, b := range brefs {
				var sb strings.Builder
				for j := 0; j < b.n; j++ {
					fmt.Fprintf(&sb, "%0*x", in.elemHexW(b.tag), m2[k].Uint64())
					k++
				}
				out[b.tag] = sb.String()
			}
		}
	} else {
		for _, b := range brefs {
			out[b.tag] = ""
		}
	}
	return out, true
}

func (in *Interp) elemHexW(tag string) int {
	for _, iv := range in.inputs {
		if iv.tag == tag && iv.w > 0 {
			return iv.w / 4
		}
	}
	return 2
}

func (in *Interp) recordFailure(kind, id, site, msg string, stack []string) {
	inputs, ok := in.modelInputs()
	if !ok {
		in.Rep.Unknowns = appendUniq(in.Rep.Unknowns, "no model for failure "+id+" at "+site)
		inputs = map[string]string{}
	}
	// de-duplicate by (kind,id,site)
	for _, f := range in.Rep.Failures {
		if f.Kind == kind && f.ID == id && f.Site == site {
			return
		}
	}
	in.Rep.Failures = append(in.Rep.Failures, &Failure{
		Harness: in.Cfg.Name, Kind: kind, ID: id, Site: site, Msg: msg, Inputs: inputs,
		Decisions: append([]int64(nil), in.decisions...), Stack: stack,
	})
}

func (in *Interp) obligation(id, site string) *Obligation {
	k := id + "@" + site
	o := in.Rep.Obligations[k]
	if o == nil {
		o = &Obligation{ID: id, Site: site}
		in.Rep.Obligations[k] = o
	}
	return o
}

// assertCond checks PC ∧ ¬cond. On sat it records a failure and continues on the holding side.
func (in *Interp) assertCond(cond *smt.Term, id, site string) {
	o := in.obligation(id, site)
	o.Reached++
	if cond.IsTrue() {
		o.Proved++
		return
	}
	if d, ok := in.nextDecision(); ok {
		// replay: 1 = holds on this path (assume), 0 = failing side
		if d == 1 {
			in.assume(cond)
			return
		}
		in.assume(in.C.Not(cond))
		panic(&pathEnd{reason: "violation"})
	}
	neg := in.C.Not(cond)
	r := in.checkSat(neg)
	switch r {
	case smt.Unsat:
		o.Proved++
		if in.Cfg.CrossCheck && !o.crossed {
			o.crossed = true
			script := smt.Script(in.C, append(append([]*smt.Term(nil), in.pc...), neg))
			switch r2, _, _ := smt.OneShot("cvc5", script, 30); r2 {
			case smt.Unsat:
				o.CrossAgreed++
			case smt.Sat:
				o.Unknown++
				in.Rep.Unknowns = appendUniq(in.Rep.Unknowns, "solver disagreement on assertion "+id+" at "+site+": z3 unsat, cvc5 sat")
			default:
				o.CrossSkip++
			}
		}
		in.record(1)
		in.assume(cond)
		return
	case smt.Unknown:
		o.Unknown++
		in.Rep.Unknowns = appendUniq(in.Rep.Unknowns, "assertion "+id+" undecided at "+site)
		in.record(1)
		in.assume(cond)
		return
	}
	// violation
	o.Failed++
	saved := in.pc
	in.pc = append(append([]*smt.Term(nil), in.pc...), neg)
	in.record(0)
	in.recordFailure("assert", id, site, "", in.stackTrace())
	in.decisions[len(in.decisions)-1] = 1
	in.pc = saved
	// continue on the side where the assertion holds, if feasible
	if in.checkSat(cond) == smt.Unsat {
		panic(&pathEnd{reason: "violation"})
	}
	in.assume(cond)
}

func (in *Interp) cover(id string) {
	in.Rep.CoverDeclared[id] = true
	if in.Rep.Covers[id] {
		return
	}
	inputs, ok := in.modelInputs()
	if ok {
		in.Rep.Covers[id] = true
		in.Rep.CoverWitness[id] = inputs
	}
}

// ---- goPanic helpers

func (in *Interp) raise(kind string, val Value) {
	site := "?"
	if len(in.frames) > 0 {
		fr := in.frames[len(in.frames)-1]
		site = fr.fn.String()
		// innermost frame with position information gives file:line
		for i := len(in.frames) - 1; i >= 0; i-- {
			f := in.frames[i]
			if f.cur != nil && f.cur.Pos().IsValid() {
				p := in.Prog.Fset.Position(f.cur.Pos())
				site = fmt.Sprintf("%s (%s:%d)", fr.fn.String(), shortFile(p.Filename), p.Line)
				break
			}
		}
	}
	panic(&goPanic{kind: kind, val: val, site: site, stack: in.stackTrace()})
}

// checkOK branches on a runtime check; on the failing side raises a Go panic of the kind.
func (in *Interp) checkOK(ok *smt.Term, kind string) {
	if ok.IsTrue() {
		return
	}
	replaying := in.decIdx < len(in.prefix)
	if !in.branch(ok) {
		in.raise(kind, nil)
	}
	if !replaying && !ok.IsFalse() {
		// a runtime-check obligation decided by the solver on this path
		in.Rep.PanicChecks++
		if n := len(in.decisions); n > 0 && in.decisions[n-1] == 3 {
			in.Rep.PanicChecksSafe++ // failing side unsat: cannot panic here on this path
		}
	}
}

func shortFile(p string) string {
	if i := strings.Index(p, "/repo/"); i >= 0 {
		return p[i+len("/repo/"):]
	}
	if i := strings.Index(p, "/pkg/mod/"); i >= 0 {
		return p[i+len("/pkg/mod/"):]
	}
	return p
}

// setQueryTimeout bounds the next query by the per-query timeout and the remaining wall budget.
func (in *Interp) setQueryTimeout() {
	ms := in.Cfg.TimeoutS * 1000
	if ms <= 0 {
		ms = 60000
	}
	if !in.deadline.IsZero() {
		rem := int(time.Until(in.deadline).Milliseconds()) + 2000
		if rem < 1000 {
			rem = 1000
		}
		if rem < ms {
			ms = rem
		}
	}
	in.S.NextTimeoutMs = ms
}

// solve: a short attempt on the incremental session first; when that is inconclusive, a
// portfolio of fresh one-shot solver processes with the full per-query timeout.
func (in *Interp) solve(as []*smt.Term, want []*smt.Term) (smt.Result, []*big.Int) {
	in.setQueryTimeout()
	full := in.S.NextTimeoutMs
	fast := 4000
	if fast > full {
		fast = full
	}
	in.S.NextTimeoutMs = fast
	r, m := in.S.Check(as, want)
	if r != smt.Unknown {
		return r, m
	}
	rem := full/1000 - fast/1000
	if rem < 2 {
		rem = 2
	}
	t0 := time.Now()
	r2, m2, who := smt.Portfolio(in.C, as, want, rem)
	in.Rep.PortfolioQueries++
	in.Rep.PortfolioTime += time.Since(t0)
	if r2 != smt.Unknown {
		in.S.NUnknown--
		if r2 == smt.Sat {
			in.S.NSat++
		} else {
			in.S.NUnsat++
		}
		if in.Rep.PortfolioWins == nil {
			in.Rep.PortfolioWins = map[string]int{}
		}
		in.Rep.PortfolioWins[who]++
	}
	return r2, m2
}
