package symgo

import (
	"fmt"
	"go/types"
	"math"
	"math/big"
	"sort"
	"strings"

	"golang.org/x/tools/go/ssa"

	"verif/engine/smt"
)

type intrinsicFn func(in *Interp, fn *ssa.Function, args []Value) Value

var intrinsics map[string]intrinsicFn

func init() {
	intrinsics = map[string]intrinsicFn{}
	for _, w := range []int{8, 16, 32, 64} {
		w := w
		suffix := fmt.Sprint(w)
		intrinsics["math/bits.LeadingZeros"+suffix] = func(in *Interp, fn *ssa.Function, a []Value) Value {
			return BV{in.C.BVSub(in.i64(int64(w)), in.bitLen(a[0].(BV).T, w))}
		}
		intrinsics["math/bits.Len"+suffix] = func(in *Interp, fn *ssa.Function, a []Value) Value {
			return BV{in.bitLen(a[0].(BV).T, w)}
		}
		intrinsics["math/bits.TrailingZeros"+suffix] = func(in *Interp, fn *ssa.Function, a []Value) Value {
			return BV{in.trailingZeros(a[0].(BV).T, w)}
		}
		intrinsics["math/bits.OnesCount"+suffix] = func(in *Interp, fn *ssa.Function, a []Value) Value {
			return BV{in.popCount(a[0].(BV).T, w)}
		}
	}
	intrinsics["math/bits.LeadingZeros"] = intrinsics["math/bits.LeadingZeros64"]
	intrinsics["math/bits.Len"] = intrinsics["math/bits.Len64"]
	intrinsics["math/bits.TrailingZeros"] = intrinsics["math/bits.TrailingZeros64"]
	intrinsics["math/bits.OnesCount"] = intrinsics["math/bits.OnesCount64"]

	intrinsics["bytes.Compare"] = func(in *Interp, fn *ssa.Function, a []Value) Value { return in.seqCompare(a[0], a[1]) }
	intrinsics["internal/bytealg.Compare"] = intrinsics["bytes.Compare"]
	intrinsics["strings.Compare"] = intrinsics["bytes.Compare"]
	intrinsics["cmp.Compare[string]"] = intrinsics["bytes.Compare"]
	intrinsics["bytes.Equal"] = func(in *Interp, fn *ssa.Function, a []Value) Value {
		xA, xo, xl := in.bytesOf(a[0])
		yA, yo, yl := in.bytesOf(a[1])
		return BV{in.seqEqual(xA, xo, xl, yA, yo, yl)}
	}
	intrinsics["internal/bytealg.Equal"] = intrinsics["bytes.Equal"]
	intrinsics["bytes.IndexByte"] = func(in *Interp, fn *ssa.Function, a []Value) Value {
		return in.indexByte(a[0], a[1].(BV).T)
	}
	intrinsics["internal/bytealg.IndexByte"] = intrinsics["bytes.IndexByte"]
	intrinsics["internal/bytealg.IndexByteString"] = intrinsics["bytes.IndexByte"]
	intrinsics["strings.IndexByte"] = intrinsics["bytes.IndexByte"]

	intrinsics["errors.Is"] = func(in *Interp, fn *ssa.Function, a []Value) Value {
		e, ok1 := a[0].(Iface)
		t, ok2 := a[1].(Iface)
		if !ok1 || !ok2 || e.T == nil || t.T == nil {
			return BV{in.C.Bool(ok1 && ok2 && e.T == nil && t.T == nil)}
		}
		return BV{in.valuesEqual(e, t)}
	}
	intrinsics["errors.As"] = func(in *Interp, fn *ssa.Function, a []Value) Value { return BV{in.C.False} }
	intrinsics["errors.Unwrap"] = func(in *Interp, fn *ssa.Function, a []Value) Value { return Iface{} }
	intrinsics["fmt.Errorf"] = func(in *Interp, fn *ssa.Function, a []Value) Value {
		in.opaqueSeq++
		return Iface{T: opaqueErrType, V: Opaque{ID: in.opaqueSeq, Kind: "error:fmt.Errorf"}}
	}
	strRet := func(in *Interp, fn *ssa.Function, a []Value) Value { return in.constStr("<formatted>") }
	intrinsics["fmt.Sprintf"] = strRet
	intrinsics["fmt.Sprint"] = strRet
	intrinsics["fmt.Sprintln"] = strRet
	intrinsics["(*sync.WaitGroup).Wait"] = func(in *Interp, fn *ssa.Function, a []Value) Value {
		in.drainTasks()
		return nil
	}
	// sync.Mutex / sync.RWMutex: sequential semantics with the lock state tracked, so that a lock
	// acquired twice by one task (the call would never return), an unlock of an unlocked mutex
	// (a Go runtime fatal error) and a lock still held once the harness and its tasks are done are
	// failures. A nested task that meets a lock held by an outer task would block until the outer
	// one releases it; that order is not modelled and such a lock is no longer tracked.
	lockOp := func(write, acquire bool) func(in *Interp, fn *ssa.Function, a []Value) Value {
		return func(in *Interp, fn *ssa.Function, a []Value) Value {
			p, ok := a[0].(Ptr)
			if !ok || p.Obj == 0 {
				in.raise("nil pointer dereference", nil)
			}
			k := lockKey(p)
			st := in.locks[k]
			if st == nil {
				st = &lockState{}
				in.locks[k] = st
			}
			if st.untracked {
				return nil
			}
			held := st.writer || st.readers > 0
			if acquire {
				if held && (write || st.writer) {
					if st.depth != in.taskDepth {
						st.untracked = true
						return nil
					}
					in.raise("lock acquired while still held by the same task, first at "+st.site+": the call never returns", nil)
				}
				if write {
					st.writer = true
				} else {
					st.readers++
				}
				st.depth, st.site = in.taskDepth, in.whereLine()
				return nil
			}
			if write {
				if !st.writer {
					in.raise("sync: unlock of unlocked mutex", nil)
				}
				st.writer = false
			} else {
				if st.readers == 0 {
					in.raise("sync: RUnlock of unlocked RWMutex", nil)
				}
				st.readers--
			}
			return nil
		}
	}
	intrinsics["(*sync.Mutex).Lock"] = lockOp(true, true)
	intrinsics["(*sync.Mutex).Unlock"] = lockOp(true, false)
	intrinsics["(*sync.RWMutex).Lock"] = lockOp(true, true)
	intrinsics["(*sync.RWMutex).Unlock"] = lockOp(true, false)
	intrinsics["(*sync.RWMutex).RLock"] = lockOp(false, true)
	intrinsics["(*sync.RWMutex).RUnlock"] = lockOp(false, false)
	// sync.Pool: Put keeps the object; Get hands back a kept object or a new one (both are legal
	// behaviours of the real pool: a fork), calling New when it has to make one.
	intrinsics["(*sync.Pool).Put"] = func(in *Interp, fn *ssa.Function, a []Value) Value {
		k := lockKey(a[0].(Ptr))
		if in.pools == nil {
			in.pools = map[string][]Value{}
		}
		in.pools[k] = append(in.pools[k], a[1])
		return nil
	}
	intrinsics["(*sync.Pool).Get"] = func(in *Interp, fn *ssa.Function, a []Value) Value {
		p := a[0].(Ptr)
		k := lockKey(p)
		if items := in.pools[k]; len(items) > 0 && in.choose(2) == 0 {
			v := items[len(items)-1]
			in.pools[k] = items[:len(items)-1]
			return v
		}
		st, ok := in.load(p).(Struct)
		if !ok {
			in.unsupported("sync.Pool value")
		}
		pt := fn.Signature.Recv().Type().(*types.Pointer).Elem().Underlying().(*types.Struct)
		for i := 0; i < pt.NumFields(); i++ {
			if pt.Field(i).Name() == "New" {
				if f, ok := st.F[i].(Func); ok && (f.Fn != nil || f.B != nil) {
					return in.invoke(f, nil, nil, nil)
				}
			}
		}
		return Iface{}
	}
	intrinsics["(*sync.Once).Do"] = func(in *Interp, fn *ssa.Function, a []Value) Value {
		p := a[0].(Ptr)
		key := "once|" + in.identKey(p)
		if _, done := in.attrMemo[key]; done {
			return nil
		}
		in.attrMemo[key] = BV{in.C.True}
		in.invoke(a[1], nil, nil, nil)
		return nil
	}

	// sync/atomic primitives (sequential semantics)
	for _, ty := range []string{"Int32", "Int64", "Uint32", "Uint64", "Uintptr", "Pointer"} {
		intrinsics["sync/atomic.Load"+ty] = func(in *Interp, fn *ssa.Function, a []Value) Value { return in.load(a[0].(Ptr)) }
		intrinsics["sync/atomic.Store"+ty] = func(in *Interp, fn *ssa.Function, a []Value) Value {
			in.store(a[0].(Ptr), a[1])
			return nil
		}
		intrinsics["sync/atomic.Swap"+ty] = func(in *Interp, fn *ssa.Function, a []Value) Value {
			old := in.load(a[0].(Ptr))
			in.store(a[0].(Ptr), a[1])
			return old
		}
		intrinsics["sync/atomic.CompareAndSwap"+ty] = func(in *Interp, fn *ssa.Function, a []Value) Value {
			p := a[0].(Ptr)
			cur := in.load(p)
			eq := in.valuesEqual(cur, a[1])
			if in.branch(eq) {
				in.store(p, a[2])
				return BV{in.C.True}
			}
			return BV{in.C.False}
		}
		if ty != "Pointer" {
			intrinsics["sync/atomic.Add"+ty] = func(in *Interp, fn *ssa.Function, a []Value) Value {
				p := a[0].(Ptr)
				nv := BV{in.C.BVAdd(in.load(p).(BV).T, a[1].(BV).T)}
				in.store(p, nv)
				return nv
			}
			intrinsics["sync/atomic.And"+ty] = func(in *Interp, fn *ssa.Function, a []Value) Value {
				p := a[0].(Ptr)
				old := in.load(p).(BV)
				in.store(p, BV{in.C.BVAnd(old.T, a[1].(BV).T)})
				return old
			}
			intrinsics["sync/atomic.Or"+ty] = func(in *Interp, fn *ssa.Function, a []Value) Value {
				p := a[0].(Ptr)
				old := in.load(p).(BV)
				in.store(p, BV{in.C.BVOr(old.T, a[1].(BV).T)})
				return old
			}
		}
	}
	// math on concrete floats
	f1 := func(f func(float64) float64) intrinsicFn {
		return func(in *Interp, fn *ssa.Function, a []Value) Value {
			x := a[0].(Float)
			if x.Sym != nil {
				in.unsupported("symbolic float in %s", fn.String())
			}
			return Float{V: f(x.V)}
		}
	}
	intrinsics["math.Log2"] = func(in *Interp, fn *ssa.Function, a []Value) Value {
		x := a[0].(Float)
		if x.Sym != nil {
			if x.Kind != "int" {
				in.unsupported("math.Log2 of derived symbolic float")
			}
			return Float{Sym: x.Sym, Kind: "log2int"}
		}
		return Float{V: math.Log2(x.V)}
	}
	intrinsics["math.Ceil"] = f1(math.Ceil)
	intrinsics["math.Floor"] = f1(math.Floor)
	intrinsics["math.Sqrt"] = f1(math.Sqrt)
	intrinsics["math.Abs"] = f1(math.Abs)
	intrinsics["math.Log"] = f1(math.Log)
	intrinsics["math.Pow"] = func(in *Interp, fn *ssa.Function, a []Value) Value {
		return Float{V: math.Pow(a[0].(Float).V, a[1].(Float).V)}
	}
	intrinsics["(*sync/atomic.Value).Store"] = func(in *Interp, fn *ssa.Function, a []Value) Value {
		if v, ok := a[1].(Iface); ok && v.T == nil {
			in.raise("explicit", in.newOpaqueErr("sync/atomic: store of nil value into Value"))
		}
		in.store(a[0].(Ptr).Extend(Sel{Field: 0}), a[1])
		return nil
	}
	intrinsics["(*sync/atomic.Value).Load"] = func(in *Interp, fn *ssa.Function, a []Value) Value {
		return in.load(a[0].(Ptr).Extend(Sel{Field: 0}))
	}
	// context: one opaque context per run; Done() is a channel that never becomes ready unless
	// the harness asks for nondeterministic cancellation (//verif:ctx nondet).
	ctxBg := func(in *Interp, fn *ssa.Function, a []Value) Value { return in.opaqueCtx("background") }
	intrinsics["context.Background"] = ctxBg
	intrinsics["context.TODO"] = ctxBg
	withTimeout := func(in *Interp, fn *ssa.Function, a []Value) Value {
		parent := a[0]
		if p, ok := parent.(Iface); ok && p.T == nil {
			parent = in.opaqueCtx("background")
		}
		return Tuple{parent, Func{Noop: true}}
	}
	// WithCancel: a child context with its own done channel; the cancel function closes it.
	// (Cancellation of the parent is not propagated to the child.)
	intrinsics["context.WithCancel"] = func(in *Interp, fn *ssa.Function, a []Value) Value {
		in.opaqueSeq++
		child := Iface{T: opaqueCtxType, V: Opaque{ID: in.opaqueSeq, Kind: "context"}}
		obj := in.newObj(&chanState{}, nil)
		in.attrMemo[fmt.Sprintf("ctxdone|%d", in.opaqueSeq)] = ChanV{Obj: obj}
		return Tuple{child, Func{CancelCh: obj}}
	}
	intrinsics["context.WithTimeout"] = withTimeout
	intrinsics["context.WithDeadline"] = withTimeout
	intrinsics["context.WithValue"] = func(in *Interp, fn *ssa.Function, a []Value) Value { return a[0] }
	intrinsics["internal/bytealg.MakeNoZero"] = func(in *Interp, fn *ssa.Function, a []Value) Value {
		n := a[0].(BV).T
		return in.newScalarSlice(types.Typ[types.Uint8], 8, n, n)
	}
	intrinsics["sort.Slice"] = sortSlice
	intrinsics["sort.SliceStable"] = sortSlice
}

// bitLen returns bits.Len(x) as a 64-bit (int) term.
func (in *Interp) bitLen(x *smt.Term, w int) *smt.Term {
	c := in.C
	if x.Sort.W != w {
		x = c.Resize(x, w, false)
	}
	if x.IsConst() {
		return in.i64(int64(x.Val.BitLen()))
	}
	r := in.i64(0)
	for i := 0; i < w; i++ {
		bit := c.Eq(c.Extract(x, i, i), c.BV(1, 1))
		r = c.Ite(bit, in.i64(int64(i+1)), r)
	}
	return r
}

func (in *Interp) trailingZeros(x *smt.Term, w int) *smt.Term {
	c := in.C
	r := in.i64(int64(w))
	for i := w - 1; i >= 0; i-- {
		bit := c.Eq(c.Extract(x, i, i), c.BV(1, 1))
		r = c.Ite(bit, in.i64(int64(i)), r)
	}
	return r
}

func (in *Interp) popCount(x *smt.Term, w int) *smt.Term {
	c := in.C
	r := in.i64(0)
	for i := 0; i < w; i++ {
		r = c.BVAdd(r, c.ZExt(c.Extract(x, i, i), 63))
	}
	return r
}

// seqCompare: lexicographic three-way comparison (-1,0,1 as int).
func (in *Interp) seqCompare(a, b Value) Value {
	c := in.C
	xA, xo, xl := in.bytesOf(a)
	yA, yo, yl := in.bytesOf(b)
	nx := in.concretize(xl, "length in bytes.Compare")
	ny := in.concretize(yl, "length in bytes.Compare")
	n := nx
	if ny < n {
		n = ny
	}
	var tail *smt.Term
	switch {
	case nx < ny:
		tail = in.i64(-1)
	case nx > ny:
		tail = in.i64(1)
	default:
		tail = in.i64(0)
	}
	r := tail
	for i := int64(n) - 1; i >= 0; i-- {
		x := xA.Read(c, c.BVAdd(xo, in.u64(uint64(i))))
		y := yA.Read(c, c.BVAdd(yo, in.u64(uint64(i))))
		r = c.Ite(c.Ult(x, y), in.i64(-1), c.Ite(c.Ult(y, x), in.i64(1), r))
	}
	return BV{r}
}

func (in *Interp) indexByte(s Value, b *smt.Term) Value {
	c := in.C
	A, off, l := in.bytesOf(s)
	n := in.concretize(l, "length in IndexByte")
	r := in.i64(-1)
	for i := int64(n) - 1; i >= 0; i-- {
		x := A.Read(c, c.BVAdd(off, in.u64(uint64(i))))
		r = c.Ite(c.Eq(x, b), in.i64(i), r)
	}
	return BV{r}
}

// sortSlice: insertion sort driven by the less closure (forks on undetermined comparisons).
func sortSlice(in *Interp, fn *ssa.Function, a []Value) Value {
	ifc := a[0].(Iface)
	s, ok := ifc.V.(Slice)
	if !ok {
		in.unsupported("sort.Slice on %s", describe(ifc.V))
	}
	less := a[1]
	n := int(in.concretize(s.Len, "sort.Slice length"))
	callLess := func(i, j int) bool {
		r := in.invoke(less, []Value{BV{in.i64(int64(i))}, BV{in.i64(int64(j))}}, nil, nil)
		return in.branch(r.(BV).T)
	}
	for i := 1; i < n; i++ {
		for j := i; j > 0 && callLess(j, j-1); j-- {
			x := in.sliceGet(s, in.u64(uint64(j)))
			y := in.sliceGet(s, in.u64(uint64(j-1)))
			in.sliceSet(s, in.u64(uint64(j)), y)
			in.sliceSet(s, in.u64(uint64(j-1)), x)
		}
	}
	return nil
}

// ---- harness intrinsics (vs*)

func (in *Interp) tagOf(v Value) string {
	s, ok := v.(Str)
	if !ok {
		in.unsupported("vs* tag must be a string")
	}
	cs, ok := in.concreteString(s)
	if !ok {
		in.unsupported("vs* tag must be a constant string")
	}
	return cs
}

func (in *Interp) uniqueTag(tag string) string {
	n := in.tagCount[tag]
	in.tagCount[tag] = n + 1
	if n == 0 {
		return tag
	}
	return fmt.Sprintf("%s~%d", tag, n)
}

func (in *Interp) inputBV(tag string, w int) *smt.Term {
	tag = in.uniqueTag(tag)
	if pv, ok := in.Cfg.Pinned[tag]; ok {
		return in.C.BVBig(w, pv)
	}
	t := in.C.Var("in!"+tag, smt.BVSort(w))
	in.inputs = append(in.inputs, inputVar{tag: tag, kind: "bv", t: t})
	return t
}

// inputBytes: tag must already be unique (uniqueTag).
func (in *Interp) inputBytes(tag string, n *smt.Term, w int, et types.Type) Slice {
	if pv, ok := in.Cfg.Pinned[tag+"#len"]; ok {
		ln := int(pv.Uint64())
		hexs := in.Cfg.PinnedStr(tag)
		cells := make([]*smt.Term, ln)
		hw := w / 4
		for i := range cells {
			var v uint64
			if (i+1)*hw <= len(hexs) {
				fmt.Sscanf(hexs[i*hw:(i+1)*hw], "%x", &v)
			}
			cells[i] = in.C.BV(w, v)
		}
		obj := in.newObj(SArray{A: &cellsArr{cells: cells, w: w}, W: w, N: in.u64(uint64(ln))}, types.NewSlice(et))
		// when the requested length is symbolic, pin it
		in.assume(in.C.Eq(n, in.u64(uint64(ln))))
		return Slice{Base: Ptr{Obj: obj}, Off: in.u64(0), Len: in.u64(uint64(ln)), Cap: in.u64(uint64(ln))}
	}
	arr := in.C.Var("in!"+tag+"!arr", smt.ArrSort(64, w))
	lenT := n
	if !n.IsConst() {
		// keep a named length variable for model extraction
		lenT = in.C.Var("in!"+tag+"!len", smt.BVSort(64))
		in.assume(in.C.Eq(lenT, n))
	}
	in.inputs = append(in.inputs, inputVar{tag: tag, kind: "bytes", arr: arr, lenT: lenT, w: w})
	var A ArrayTerm = &baseArr{sym: arr, w: w}
	if n.IsConst() && n.Uint64() <= 256 {
		// concrete small length: materialise cells (cheaper reads)
		cells := make([]*smt.Term, n.Uint64())
		for i := range cells {
			cells[i] = in.C.Select(arr, in.u64(uint64(i)))
		}
		A = &cellsArr{cells: cells, w: w}
	}
	obj := in.newObj(SArray{A: A, W: w, N: n}, types.NewSlice(et))
	return Slice{Base: Ptr{Obj: obj}, Off: in.u64(0), Len: n, Cap: n}
}

func (c *Config) PinnedStr(tag string) string {
	if c.PinnedBytes == nil {
		return ""
	}
	return c.PinnedBytes[tag]
}

func (in *Interp) site() string {
	// position of the call in the harness (top-most harness-package frame)
	return in.where()
}

func (in *Interp) vsIntrinsic(name string, fn *ssa.Function, a []Value) (Value, bool) {
	c := in.C
	switch name {
	case "vsBool":
		t := in.inputBV(in.tagOf(a[0]), 1)
		return BV{c.Eq(t, c.BV(1, 1))}, true
	case "vsU8", "vsByte":
		return BV{in.inputBV(in.tagOf(a[0]), 8)}, true
	case "vsU16":
		return BV{in.inputBV(in.tagOf(a[0]), 16)}, true
	case "vsU32":
		return BV{in.inputBV(in.tagOf(a[0]), 32)}, true
	case "vsU64", "vsInt":
		return BV{in.inputBV(in.tagOf(a[0]), 64)}, true
	case "vsBytes":
		tag := in.uniqueTag(in.tagOf(a[0]))
		max := a[1].(BV).T
		var n *smt.Term
		if pv, ok := in.Cfg.Pinned[tag+"#len"]; ok {
			n = c.BVBig(64, pv)
		} else {
			n = c.Var("in!"+tag+"!n", smt.BVSort(64))
			in.assume(c.Ule(n, max))
		}
		return in.inputBytes(tag, n, 8, types.Typ[types.Uint8]), true
	case "vsBytesN":
		tag := in.uniqueTag(in.tagOf(a[0]))
		n := a[1].(BV).T
		in.assume(c.Ult(n, in.u64(1<<40)))
		return in.inputBytes(tag, n, 8, types.Typ[types.Uint8]), true
	case "vsU16s":
		tag := in.uniqueTag(in.tagOf(a[0]))
		n := a[1].(BV).T
		in.assume(c.Ult(n, in.u64(1<<40)))
		return in.inputBytes(tag, n, 16, types.Typ[types.Uint16]), true
	case "vsU64s":
		tag := in.uniqueTag(in.tagOf(a[0]))
		n := a[1].(BV).T
		in.assume(c.Ult(n, in.u64(1<<40)))
		return in.inputBytes(tag, n, 64, types.Typ[types.Uint64]), true
	case "vsArr32":
		tag := in.uniqueTag(in.tagOf(a[0]))
		if _, pinned := in.Cfg.Pinned[tag+"#len"]; pinned {
			s := in.inputBytes(tag, in.u64(32), 8, types.Typ[types.Uint8])
			sa, _ := in.sliceArr(s)
			return sa, true
		}
		// one 256-bit variable; its bytes are extracts (so hashes of it stay wide terms)
		t := in.C.Var("in!"+tag, smt.BVSort(256))
		in.inputs = append(in.inputs, inputVar{tag: tag, kind: "wide", t: t, w: 8})
		cells := make([]*smt.Term, 32)
		for i := range cells {
			cells[i] = in.C.Extract(t, 255-8*i, 248-8*i)
		}
		return SArray{A: &cellsArr{cells: cells, w: 8}, W: 8, N: in.u64(32)}, true
	case "vsChoose":
		u := in.uniqueTag("choose!" + in.tagOf(a[0]))
		nT := a[1].(BV).T
		if !nT.IsConst() {
			in.unsupported("vsChoose with symbolic n")
		}
		var k int
		if pv, ok := in.Cfg.Pinned[u]; ok {
			k = int(pv.Int64()) // replay: the recorded choice, no fork
		} else {
			k = in.choose(int(nT.Uint64()))
		}
		in.choiceLog[u] = k
		return BV{in.i64(int64(k))}, true
	case "vsAssume":
		t := a[0].(BV).T
		if t.IsFalse() {
			panic(&pathEnd{reason: "assume"})
		}
		if !t.IsTrue() {
			in.assume(t)
			if in.decIdx >= len(in.prefix) && !in.Cfg.NoAssumeCheck {
				if in.checkSat() == smt.Unsat {
					panic(&pathEnd{reason: "assume"})
				}
			}
		}
		return nil, true
	case "vsAssert":
		id := in.tagOf(a[1])
		in.assertCond(a[0].(BV).T, id, in.callerSite())
		return nil, true
	case "vsAssertBytesEq":
		id := in.tagOf(a[2])
		xA, xo, xl := in.bytesOf(a[0])
		yA, yo, yl := in.bytesOf(a[1])
		var cond *smt.Term
		if xl.IsConst() && yl.IsConst() && xl.Uint64() <= maxCells {
			// concrete lengths: element-wise conjunction (identical cells fold to true)
			if xl.Uint64() != yl.Uint64() {
				cond = c.False
			} else {
				conj := []*smt.Term{}
				for i := uint64(0); i < xl.Uint64(); i++ {
					conj = append(conj, c.Eq(xA.Read(c, c.BVAdd(xo, in.u64(i))), yA.Read(c, c.BVAdd(yo, in.u64(i)))))
				}
				cond = c.And(conj...)
			}
		} else {
			k := c.Fresh("sk!"+id, smt.BVSort(64))
			cond = c.And(c.Eq(xl, yl), c.Implies(c.Ult(k, xl), c.Eq(xA.Read(c, c.BVAdd(xo, k)), yA.Read(c, c.BVAdd(yo, k)))))
		}
		in.assertCond(cond, id, in.callerSite())
		return nil, true
	case "vsCover":
		in.cover(in.tagOf(a[0]))
		return nil, true
	case "vsParam":
		nm := in.tagOf(a[0])
		v, ok := in.Cfg.Params[nm]
		if !ok {
			in.unsupported("vsParam %q not declared with //verif:param", nm)
		}
		return BV{in.i64(v)}, true
	case "vsNative":
		return BV{c.False}, true
	case "vsObserve":
		return nil, true
	case "vsFresh":
		tag := in.tagOf(a[0])
		return in.havocInput(in.retType(fn), tag), true
	case "vsHavocErr":
		return in.havoc(in.retType(fn), "vsHavocErr", false), true
	case "vsIte32":
		// select between two [32]byte values without forking
		v, ok := in.iteValue(a[0].(BV).T, a[1], a[2])
		if !ok {
			in.unsupported("vsIte32 on unmergeable values")
		}
		return v, true
	case "vsUF256":
		// uninterpreted function [32]byte -> [32]byte named by the tag
		nm := in.tagOf(a[0])
		var flat []*smt.Term
		in.flatten(a[1], &flat)
		arg := in.concatAll(flat)
		bits := in.C.App("uf!"+nm, smt.BVSort(256), arg)
		cells := make([]*smt.Term, 32)
		for i := range cells {
			cells[i] = in.C.Extract(bits, 255-8*i, 248-8*i)
		}
		return SArray{A: &cellsArr{cells: cells, w: 8}, W: 8, N: in.u64(32)}, true
	case "vsPendingTasks":
		return BV{in.i64(int64(len(in.tasks)))}, true
	case "vsRunTasks":
		in.drainTasks()
		return nil, true
	case "vsFail":
		in.recordFailure("assert", in.tagOf(a[0]), in.callerSite(), "vsFail reached", in.stackTrace())
		panic(&pathEnd{reason: "violation"})
	}
	return nil, false
}

// havocInput creates a fully symbolic value of a type registered as named inputs.
func (in *Interp) havocInput(t types.Type, tag string) Value {
	switch u := t.Underlying().(type) {
	case *types.Basic:
		if w, _, ok := intWidth(u); ok {
			return BV{in.inputBV(tag, w)}
		}
		if isBool(u) {
			return BV{in.C.Eq(in.inputBV(tag, 1), in.C.BV(1, 1))}
		}
	case *types.Struct:
		f := make([]Value, u.NumFields())
		for i := range f {
			f[i] = in.havocInput(u.Field(i).Type(), tag+"."+u.Field(i).Name())
		}
		return Struct{F: f}
	case *types.Array:
		if w, ok := scalarElem(u.Elem()); ok {
			s := in.inputBytes(in.uniqueTag(tag), in.u64(uint64(u.Len())), w, u.Elem())
			sa, _ := in.sliceArr(s)
			return sa
		}
		cells := make([]Value, u.Len())
		for i := range cells {
			cells[i] = in.havocInput(u.Elem(), fmt.Sprintf("%s.%d", tag, i))
		}
		return Array{Cells: cells}
	case *types.Pointer:
		obj := in.newObj(in.havocInput(u.Elem(), tag), u.Elem())
		return Ptr{Obj: obj}
	}
	return in.zero(t)
}

func (in *Interp) callerSite() string {
	// the innermost frame is the harness function calling vsAssert
	if len(in.frames) == 0 {
		return "?"
	}
	return in.frames[len(in.frames)-1].fn.Name()
}

var _ = big.NewInt
var _ = strings.HasPrefix

var opaqueCtxType = types.NewNamed(types.NewTypeName(0, nil, "verifOpaqueContext", nil), types.NewStruct(nil, nil), nil)

func (in *Interp) opaqueCtx(kind string) Value {
	key := "ctx|" + kind
	if v, ok := in.attrMemo[key]; ok {
		return v
	}
	in.opaqueSeq++
	v := Iface{T: opaqueCtxType, V: Opaque{ID: in.opaqueSeq, Kind: "context"}}
	in.attrMemo[key] = v
	return v
}

// ctxMethod implements context.Context methods on the opaque context.
func (in *Interp) ctxMethod(op Opaque, name string, rt types.Type) (Value, bool) {
	key := fmt.Sprintf("ctxdone|%d", op.ID)
	getCh := func() ChanV {
		if v, ok := in.attrMemo[key]; ok {
			return v.(ChanV)
		}
		obj := in.newObj(&chanState{nondet: true}, nil)
		ch := ChanV{Obj: obj}
		in.attrMemo[key] = ch
		return ch
	}
	switch name {
	case "Done":
		return getCh(), true
	case "Err":
		ch := getCh()
		st := in.chanState(ch)
		if st.nondet && !st.closed && in.Cfg.CtxPolicy == "nondet" {
			if in.choose(2) == 1 {
				st.closed = true
			}
		}
		if st.closed {
			return in.newOpaqueErr("context canceled"), true
		}
		return Iface{}, true
	case "Deadline":
		return in.zero(rt), true
	case "Value":
		return Iface{}, true
	}
	return nil, false
}

func lockKey(p Ptr) string {
	var sb strings.Builder
	fmt.Fprintf(&sb, "%d", p.Obj)
	for _, s := range p.Path {
		if s.Idx != nil {
			fmt.Fprintf(&sb, "[%p]", s.Idx)
		} else {
			fmt.Fprintf(&sb, ".%d", s.Field)
		}
	}
	return sb.String()
}

// checkLocksReleased: once the harness has returned and every task has run, a mutex that is still
// held was leaked by an operation that has finished: the next writer blocks forever.
func (in *Interp) checkLocksReleased() {
	if len(in.tasks) > 0 {
		return
	}
	keys := make([]string, 0, len(in.locks))
	for k := range in.locks {
		keys = append(keys, k)
	}
	sort.Strings(keys)
	for _, k := range keys {
		st := in.locks[k]
		if st.untracked || !(st.writer || st.readers > 0) {
			continue
		}
		in.recordFailure("panic", "lock still held after the operation returned: the next writer blocks forever", st.site, "mutex acquired at "+st.site+" is never released on this path", nil)
		return
	}
}
