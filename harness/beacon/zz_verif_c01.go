//go:build verif

package beacon

import (
	"errors"
	"io"

	"github.com/cockroachdb/pebble"
	"github.com/ethereum/go-ethereum/core/types"
	"github.com/protolambda/zrnt/eth2/beacon/altair"
	"github.com/protolambda/zrnt/eth2/beacon/capella"
	"github.com/protolambda/zrnt/eth2/beacon/common"
	beacontypes "github.com/zen-eth/shisui/types/beacon"
)

func init() {
	vsRegister("C01.beacon_storage_key", vhC01BeaconStorageKey)
	vsRegister("C01.beacon_validate_key", vhC01BeaconValidateKey)
}

// Environment of the beacon adapters: pebble answers arbitrarily (value of 0..12 bytes, not
// found, or error); the fork-tagged ztyp content decoders are arbitrary-outcome stubs.
//
//verif:group beaconenv
//verif:model (*github.com/cockroachdb/pebble.DB).Get = vmDBGet
//verif:stub havoc (*github.com/cockroachdb/pebble.Batch).Set (*github.com/cockroachdb/pebble.Batch).Commit
//verif:stub havoc (*github.com/cockroachdb/pebble.DB).NewBatch
//verif:stub havoc (*github.com/zen-eth/shisui/types/beacon.ForkedLightClientUpdate).Deserialize (github.com/zen-eth/shisui/types/beacon.LightClientUpdateRange).Serialize (*github.com/zen-eth/shisui/types/beacon.LightClientUpdateRange).Deserialize
//verif:stub havoc (*github.com/zen-eth/shisui/types/beacon.ForkedLightClientFinalityUpdate).Deserialize (*github.com/zen-eth/shisui/types/beacon.ForkedLightClientOptimisticUpdate).Deserialize (*github.com/zen-eth/shisui/types/beacon.ForkedLightClientBootstrap).Deserialize (*github.com/zen-eth/shisui/types/beacon.ForkedHistoricalSummariesWithProof).Deserialize
//verif:stub havoc (*github.com/zen-eth/shisui/types/beacon.ForkedLightClientFinalityUpdate).Serialize (*github.com/zen-eth/shisui/types/beacon.ForkedLightClientOptimisticUpdate).Serialize
//verif:stub havoc (*github.com/zen-eth/shisui/beacon.BeaconValidator).stateSummariesValidation
//verif:stub havoc time.Now (time.Time).Unix (*github.com/protolambda/zrnt/eth2/beacon/common.Spec).TimeToSlot
//verif:exec github.com/protolambda/ztyp/codec github.com/protolambda/ztyp/view bytes
func vgBeaconEnv() {}

type vmCloser struct{}

func (vmCloser) Close() error { return nil }

// vmDBGet: not found, an I/O error, or a value of 8..12 arbitrary bytes. (Every value the adapter
// itself writes under the historical-summaries key starts with the 8-byte epoch of a validated
// key, so stored values shorter than 8 bytes are not reachable.)
func vmDBGet(db *pebble.DB, key []byte) ([]byte, io.Closer, error) {
	// the database holds finitely many entries: after three hits in one operation the next lookup
	// misses (the walk over consecutive update periods runs the same step each time)
	if vhDBHits >= 3 {
		return nil, nil, pebble.ErrNotFound
	}
	vhDBHits++
	switch vsChoose("db-get", 3) {
	case 0:
		return nil, nil, pebble.ErrNotFound
	case 1:
		return nil, nil, vhErrIO
	}
	return vsBytesN("db-value", 8+vsChoose("db-value-extra", 5)), vmCloser{}, nil
}

var vhDBHits int

var vhErrIO = errors.New("verif: i/o error")

type vmOracle struct{}

func (o *vmOracle) GetHistoricalSummaries(epoch uint64) (capella.HistoricalSummaries, error) {
	return nil, vhErrIO
}
func (o *vmOracle) GetBlockHeaderByHash(hash []byte) (*types.Header, error) { return nil, vhErrIO }
func (o *vmOracle) GetFinalizedStateRoot() ([]byte, error) {
	if vsChoose("oracle-root", 2) == 1 {
		return vsBytesN("finalized-root", 32), nil
	}
	return nil, vhErrIO
}

// Peer-chosen content keys of 0..L bytes against the beacon storage adapter.
//
//verif:harness C01.beacon_storage_key unwind=12 havocmax=12
//verif:use beaconenv
//verif:param L=18/24
func vhC01BeaconStorageKey() {
	key := vsBytes("key", vsParam("L"))
	// the real update cache, empty or holding updates at arbitrary slots
	cache := &beaconStorageCache{}
	if vsChoose("cached-finality-update", 2) == 1 {
		u := &altair.LightClientFinalityUpdate{}
		u.FinalizedHeader.Slot = common.Slot(vsU64("cached-finalized-slot"))
		cache.finalityUpdate = &beacontypes.ForkedLightClientFinalityUpdate{ForkDigest: beacontypes.Bellatrix, LightClientFinalityUpdate: u}
	}
	if vsChoose("cached-optimistic-update", 2) == 1 {
		u := &altair.LightClientOptimisticUpdate{SignatureSlot: common.Slot(vsU64("cached-signature-slot"))}
		cache.optimisticUpdate = &beacontypes.ForkedLightClientOptimisticUpdate{ForkDigest: beacontypes.Bellatrix, LightClientOptimisticUpdate: u}
	}
	bs := &Storage{db: &pebble.DB{}, cache: cache}
	vhDBHits = 0
	id := vsBytesN("id", 32)
	if vsChoose("op", 2) == 0 {
		bs.Get(key, id)
	} else {
		bs.Put(key, id, vsBytes("content", 4))
	}
	if len(key) == 0 {
		vsCover("empty-key")
	}
	vsCover("returned")
}

//verif:harness C01.beacon_validate_key unwind=12 havocmax=12
//verif:use beaconenv
//verif:param L=10/40
func vhC01BeaconValidateKey() {
	key := vsBytes("key", vsParam("L"))
	b := &BeaconValidator{validationOracle: &vmOracle{}}
	b.ValidateContent(key, vsBytes("content", 4))
	vsCover("returned")
}
