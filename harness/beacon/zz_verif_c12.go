//go:build verif

package beacon

import (
	"math/bits"

	"github.com/protolambda/zrnt/eth2/beacon/altair"
	"github.com/protolambda/zrnt/eth2/beacon/common"
	"github.com/protolambda/zrnt/eth2/beacon/electra"
	"github.com/protolambda/ztyp/tree"
	"github.com/protolambda/ztyp/view"
)

func init() {
	vsRegister("C12.verify", vhC12Verify)
	vsRegister("C12.apply", vhC12Apply)
	vsRegister("C12.lemma_getbits", vhC12LemmaGetBits)
	vsRegister("C12.branch_constants", vhC12BranchConstants)
}

// ---- idealised cryptography: every primitive is an observable model ----------------------------

type vmLCEnv struct {
	count      uint64
	now        uint64
	finOK      bool
	nextOK     bool
	sigOK      bool
	finCalls   int
	nextCalls  int
	sigCalls   int
	partPubkey *common.BLSPubkey // first key of the committee handed to getParticipatingKeys
	partBits   altair.SyncCommitteeBits
	branchArgs [][2]uint64
}

var vmLC *vmLCEnv

// vmGetBits: the participation count is an arbitrary number 0..512 (an over-approximation of
// "the popcount of the bit field": every bit field has some count; C12.lemma_getbits proves that the
// real loop computes the popcount on a reduced committee size).
func vmGetBits(c *ConsensusLightClient, sync altair.SyncCommitteeBits) uint64 { return vmLC.count }

func vhPopcount(sync altair.SyncCommitteeBits) uint64 {
	n := 0
	for i := 0; i < len(sync); i++ {
		n += bits.OnesCount8(sync[i])
	}
	return uint64(n)
}

func vmExpectedCurrentSlot(c *ConsensusLightClient) common.Slot { return common.Slot(vmLC.now) }

func vmFinalityProof(att common.BeaconBlockHeader, fin common.BeaconBlockHeader, br altair.FinalizedRootProofBranch) bool {
	vmLC.finCalls++
	return vmLC.finOK
}

func vmNextProof(att common.BeaconBlockHeader, next common.SyncCommittee, br altair.SyncCommitteeProofBranch) bool {
	vmLC.nextCalls++
	return vmLC.nextOK
}

func vmParticipatingKeys(c *ConsensusLightClient, committee common.SyncCommittee, syncBits altair.SyncCommitteeBits) []common.BLSPubkey {
	if len(committee.Pubkeys) > 0 {
		vmLC.partPubkey = &committee.Pubkeys[0]
	}
	vmLC.partBits = syncBits
	return nil
}

func vmVerifySig(c *ConsensusLightClient, pks []common.BLSPubkey, att common.BeaconBlockHeader, sig common.BLSSignature, genesisRoot common.Root, forkVersion [4]byte) (bool, error) {
	vmLC.sigCalls++
	return vmLC.sigOK, nil
}

//verif:group lcenv
//verif:model (*github.com/zen-eth/shisui/beacon.ConsensusLightClient).getBits = vmGetBits
//verif:model (*github.com/zen-eth/shisui/beacon.ConsensusLightClient).expectedCurrentSlot = vmExpectedCurrentSlot
//verif:model github.com/zen-eth/shisui/beacon.IsFinalityProofValid = vmFinalityProof
//verif:model github.com/zen-eth/shisui/beacon.IsNextCommitteeProofValid = vmNextProof
//verif:model (*github.com/zen-eth/shisui/beacon.ConsensusLightClient).getParticipatingKeys = vmParticipatingKeys
//verif:model (*github.com/zen-eth/shisui/beacon.ConsensusLightClient).VerifySyncCommitteeSignature = vmVerifySig
//verif:stub noop (*github.com/zen-eth/shisui/beacon.ConsensusLightClient).logFinalityUpdate
//verif:stub havoc (*github.com/protolambda/zrnt/eth2/beacon/common.BeaconBlockHeader).HashTreeRoot
func vgLCEnv() {}

func vhSpec(committeeSize uint64) *common.Spec {
	spec := &common.Spec{}
	spec.SYNC_COMMITTEE_SIZE = view.Uint64View(committeeSize)
	return spec
}

func vhHeader(tag string) *common.BeaconBlockHeader {
	return &common.BeaconBlockHeader{Slot: common.Slot(vsU64(tag + "-slot"))}
}

func vhCommittee() *common.SyncCommittee {
	return &common.SyncCommittee{Pubkeys: make([]common.BLSPubkey, 1)}
}

// vhStoreAndUpdate: an arbitrary store (finalized <= optimistic, current committee present, next
// committee present or not) and an arbitrary update of one of the three constructor shapes.
func vhStoreAndUpdate() (*ConsensusLightClient, *GenericUpdate) {
	tree.GetHashFn = func() tree.HashFn { return nil }
	vmLC = &vmLCEnv{count: vsU64("participants"), now: vsU64("now"), finOK: vsBool("finality-branch-ok"), nextOK: vsBool("next-committee-branch-ok"), sigOK: vsBool("signature-ok")}
	vsAssume(vmLC.count <= 512)
	c := &ConsensusLightClient{Config: &Config{Spec: vhSpec(512)}}
	c.Store.FinalizedHeader = vhHeader("store-finalized")
	c.Store.OptimisticHeader = vhHeader("store-optimistic")
	vsAssume(c.Store.OptimisticHeader.Slot >= c.Store.FinalizedHeader.Slot)
	vsAssume(c.Store.OptimisticHeader.Slot < 1<<40) // slots are far below 2^64 (no wrap in slot+8192)
	c.Store.CurrentSyncCommittee = vhCommittee()
	if vsBool("store-has-next-committee") {
		c.Store.NextSyncCommittee = vhCommittee()
	}
	c.Store.PreviousMaxActiveParticipants = view.Uint64View(vsU64("prev-max") & 1023)
	c.Store.CurrentMaxActiveParticipants = view.Uint64View(vsU64("cur-max") & 1023)
	u := &GenericUpdate{
		AttestedHeader: vhHeader("attested"),
		SyncAggregate:  &altair.SyncAggregate{SyncCommitteeBits: altair.SyncCommitteeBits(vsBytesN("bits", 64))},
		SignatureSlot:  common.Slot(vsU64("signature-slot")),
	}
	vsAssume(u.SignatureSlot < 1<<40 && u.AttestedHeader.Slot < 1<<40)
	switch vsChoose("update-kind", 3) {
	case 0: // full update: next committee + finality
		u.NextSyncCommittee, u.NextSyncCommitteeBranch = vhCommittee(), &altair.SyncCommitteeProofBranch{}
		u.FinalizedHeader, u.FinalityBranch = vhHeader("update-finalized"), &altair.FinalizedRootProofBranch{}
	case 1: // finality update
		u.FinalizedHeader, u.FinalityBranch = vhHeader("update-finalized"), &altair.FinalizedRootProofBranch{}
	}
	if u.FinalizedHeader != nil {
		vsAssume(u.FinalizedHeader.Slot < 1<<40)
	}
	return c, u
}

// VerifyGenericUpdate returns nil only if every clause of the property holds.
//
//verif:harness C12.verify unwind=80 timeout=60
//verif:use lcenv
func vhC12Verify() {
	c, u := vhStoreAndUpdate()
	curKey, nextKey := &c.Store.CurrentSyncCommittee.Pubkeys[0], (*common.BLSPubkey)(nil)
	if c.Store.NextSyncCommittee != nil {
		nextKey = &c.Store.NextSyncCommittee.Pubkeys[0]
	}
	err := c.VerifyGenericUpdate(&c.Store, u, vmLC.now, common.Root{}, [4]byte{})
	if err != nil {
		vsCover("rejected")
		return
	}
	vsCover("accepted")
	n := vmGetBits(c, u.SyncAggregate.SyncCommitteeBits)
	vsAssert(n >= 1, "at-least-one-signer")
	fin := common.Slot(0)
	if u.FinalizedHeader != nil {
		fin = u.FinalizedHeader.Slot
	}
	vsAssert(uint64(u.SignatureSlot) <= vmLC.now, "signature-slot-not-in-the-future")
	vsAssert(u.SignatureSlot > u.AttestedHeader.Slot, "signature-after-attested")
	vsAssert(u.AttestedHeader.Slot >= fin, "attested-not-before-finalized")
	storeP := uint64(c.Store.FinalizedHeader.Slot) / 8192
	sigP := uint64(u.SignatureSlot) / 8192
	if c.Store.NextSyncCommittee != nil {
		vsAssert(sigP == storeP || sigP == storeP+1, "signature-period-fits-store")
	} else {
		vsAssert(sigP == storeP, "signature-period-fits-store-without-next-committee")
	}
	suppliesNext := c.Store.NextSyncCommittee == nil && u.NextSyncCommittee != nil && uint64(u.AttestedHeader.Slot)/8192 == storeP
	vsAssert(u.AttestedHeader.Slot > c.Store.FinalizedHeader.Slot || suppliesNext, "update-is-relevant")
	if u.FinalizedHeader != nil {
		vsAssert(vmLC.finCalls == 1 && vmLC.finOK, "finality-branch-checked-and-valid")
	}
	if u.NextSyncCommittee != nil {
		vsAssert(vmLC.nextCalls == 1 && vmLC.nextOK, "next-committee-branch-checked-and-valid")
	}
	vsAssert(vmLC.sigCalls == 1 && vmLC.sigOK, "aggregate-signature-checked-and-valid")
	if sigP == storeP {
		vsAssert(vmLC.partPubkey == curKey, "keys-of-the-current-committee-for-the-store-period")
		vsCover("current-committee")
	} else {
		vsAssert(vmLC.partPubkey == nextKey && nextKey != nil, "keys-of-the-next-committee-for-the-following-period")
		vsCover("next-committee")
	}
	vsAssertBytesEq(vmLC.partBits, u.SyncAggregate.SyncCommitteeBits, "exactly-the-participating-bits")
}

// ApplyGenericUpdate from an arbitrary store and ANY update (verified or not): headers never move
// backwards, optimistic stays at or ahead of finalized, the finalized header and the committees
// change only with >= 2/3 participation, the current committee rotates only to the stored next one.
//
//verif:harness C12.apply unwind=80 timeout=60
//verif:use lcenv
func vhC12Apply() {
	c, u := vhStoreAndUpdate()
	f0, o0 := c.Store.FinalizedHeader, c.Store.OptimisticHeader
	f0s, o0s := f0.Slot, o0.Slot
	cur0, next0 := c.Store.CurrentSyncCommittee, c.Store.NextSyncCommittee
	c.ApplyGenericUpdate(u)
	n := vmGetBits(c, u.SyncAggregate.SyncCommitteeBits)
	vsAssert(c.Store.FinalizedHeader.Slot >= f0s, "finalized-never-moves-backwards")
	vsAssert(c.Store.OptimisticHeader.Slot >= o0s, "optimistic-never-moves-backwards")
	vsAssert(c.Store.OptimisticHeader.Slot >= c.Store.FinalizedHeader.Slot, "optimistic-at-or-ahead-of-finalized")
	if c.Store.FinalizedHeader != f0 {
		vsAssert(n*3 >= 1024, "finalized-changes-only-with-two-thirds")
		vsAssert(c.Store.FinalizedHeader == u.FinalizedHeader, "finalized-becomes-the-updates-finalized-header")
		vsCover("finalized-advanced")
	}
	if c.Store.CurrentSyncCommittee != cur0 || c.Store.NextSyncCommittee != next0 {
		vsAssert(n*3 >= 1024, "committees-change-only-with-two-thirds")
	}
	if c.Store.CurrentSyncCommittee != cur0 {
		vsAssert(c.Store.CurrentSyncCommittee == next0 && next0 != nil, "current-rotates-only-to-the-stored-next")
		vsCover("rotated")
	}
	if c.Store.OptimisticHeader != o0 {
		vsAssert(c.Store.OptimisticHeader == u.AttestedHeader || c.Store.OptimisticHeader == c.Store.FinalizedHeader, "optimistic-becomes-attested-or-finalized")
		vsCover("optimistic-advanced")
	}
}

// Lemma: the real getBits loop equals the popcount summary (committee size reduced to 8).
//
//verif:harness C12.lemma_getbits unwind=20
//verif:exec github.com/protolambda/zrnt/eth2/beacon/altair github.com/protolambda/ztyp/bitfields
func vhC12LemmaGetBits() {
	c := &ConsensusLightClient{Config: &Config{Spec: vhSpec(8)}}
	b := altair.SyncCommitteeBits(vsBytesN("bits", 1))
	vsAssert(c.getBits(b) == vhPopcount(b), "getBits-is-popcount")
	vsCover("done")
}

var vhBranchArgs [][2]uint64

func vmRecordBranch(leaf tree.Root, branch []tree.Root, depth uint64, index uint64, root tree.Root) bool {
	vhBranchArgs = append(vhBranchArgs, [2]uint64{depth, index})
	return len(branch) >= int(depth)
}

// The three Merkle branch checks use the generalized indices of the light-client spec:
// finalized root 105 = (depth 6, index 41), next committee 55 = (5, 23), current committee 54 = (5, 22).
//
//verif:harness C12.branch_constants unwind=20
//verif:model github.com/protolambda/zrnt/eth2/util/merkle.VerifyMerkleBranch = vmRecordBranch
//verif:stub havoc (*github.com/protolambda/zrnt/eth2/beacon/common.BeaconBlockHeader).HashTreeRoot (*github.com/protolambda/zrnt/eth2/beacon/common.SyncCommittee).HashTreeRoot
func vhC12BranchConstants() {
	vhBranchArgs = nil
	tree.GetHashFn = func() tree.HashFn { return nil }
	IsFinalityProofValid(common.BeaconBlockHeader{}, common.BeaconBlockHeader{}, altair.FinalizedRootProofBranch{})
	IsNextCommitteeProofValid(common.BeaconBlockHeader{}, common.SyncCommittee{}, altair.SyncCommitteeProofBranch{})
	c := &ConsensusLightClient{Config: &Config{Spec: vhSpec(512)}}
	c.isCurrentCommitteeProofValid(common.BeaconBlockHeader{}, common.SyncCommittee{}, electra.CurrentSyncCommitteeBranch{})
	vsAssert(len(vhBranchArgs) == 3, "three-branch-checks")
	vsAssert(1<<vhBranchArgs[0][0]+vhBranchArgs[0][1] == 105, "finalized-root-gindex-105")
	vsAssert(1<<vhBranchArgs[1][0]+vhBranchArgs[1][1] == 55, "next-sync-committee-gindex-55")
	vsAssert(1<<vhBranchArgs[2][0]+vhBranchArgs[2][1] == 54, "current-sync-committee-gindex-54")
	vsCover("done")
}
