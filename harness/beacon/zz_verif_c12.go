//go:build verif

package beacon

import (
	"bytes"
	"errors"
	"math/bits"

	blsu "github.com/protolambda/bls12-381-util"
	"github.com/protolambda/zrnt/eth2/beacon/altair"
	"github.com/protolambda/zrnt/eth2/beacon/capella"
	"github.com/protolambda/zrnt/eth2/beacon/common"
	"github.com/protolambda/zrnt/eth2/beacon/deneb"
	"github.com/protolambda/zrnt/eth2/beacon/electra"
	"github.com/protolambda/ztyp/tree"
	"github.com/protolambda/ztyp/view"
)

func init() {
	vsRegister("C12.verify", vhC12Verify)
	vsRegister("C12.apply", vhC12Apply)
	vsRegister("C12.lemma_getbits", vhC12LemmaGetBits)
	vsRegister("C12.branch_constants", vhC12BranchConstants)
	vsRegister("C12.bootstrap", vhC12Bootstrap)
	vsRegister("C12.typed_entry_points", vhC12TypedEntryPoints)
	vsRegister("C12.signature_domain", vhC12SignatureDomain)
	vsRegister("C12.lemma_participating_keys", vhC12LemmaParticipatingKeys)
}

// ---- idealised cryptography: every primitive is an observable model ----------------------------

type vmLCEnv struct {
	count      uint64
	now        uint64
	finOK      bool
	nextOK     bool
	sigOK      bool
	finCalls   int
	nextCalls  int
	sigCalls   int
	partPubkey *common.BLSPubkey // first key of the committee handed to getParticipatingKeys
	partBits   altair.SyncCommitteeBits
	branchArgs [][2]uint64
}

var vmLC *vmLCEnv

// vmGetBits: the participation count is an arbitrary number 0..512 (an over-approximation of
// "the popcount of the bit field": every bit field has some count; C12.lemma_getbits proves that the
// real loop computes the popcount on a reduced committee size).
func vmGetBits(c *ConsensusLightClient, sync altair.SyncCommitteeBits) uint64 { return vmLC.count }

func vhPopcount(sync altair.SyncCommitteeBits) uint64 {
	n := 0
	for i := 0; i < len(sync); i++ {
		n += bits.OnesCount8(sync[i])
	}
	return uint64(n)
}

func vmExpectedCurrentSlot(c *ConsensusLightClient) common.Slot { return common.Slot(vmLC.now) }

func vmFinalityProof(att common.BeaconBlockHeader, fin common.BeaconBlockHeader, br altair.FinalizedRootProofBranch) bool {
	vmLC.finCalls++
	return vmLC.finOK
}

func vmNextProof(att common.BeaconBlockHeader, next common.SyncCommittee, br altair.SyncCommitteeProofBranch) bool {
	vmLC.nextCalls++
	return vmLC.nextOK
}

func vmParticipatingKeys(c *ConsensusLightClient, committee common.SyncCommittee, syncBits altair.SyncCommitteeBits) []common.BLSPubkey {
	if len(committee.Pubkeys) > 0 {
		vmLC.partPubkey = &committee.Pubkeys[0]
	}
	vmLC.partBits = syncBits
	return nil
}

func vmVerifySig(c *ConsensusLightClient, pks []common.BLSPubkey, att common.BeaconBlockHeader, sig common.BLSSignature, genesisRoot common.Root, forkVersion [4]byte) (bool, error) {
	vmLC.sigCalls++
	return vmLC.sigOK, nil
}

//verif:group lcenv
//verif:model (*github.com/zen-eth/shisui/beacon.ConsensusLightClient).getBits = vmGetBits
//verif:model (*github.com/zen-eth/shisui/beacon.ConsensusLightClient).expectedCurrentSlot = vmExpectedCurrentSlot
//verif:model github.com/zen-eth/shisui/beacon.IsFinalityProofValid = vmFinalityProof
//verif:model github.com/zen-eth/shisui/beacon.IsNextCommitteeProofValid = vmNextProof
//verif:model (*github.com/zen-eth/shisui/beacon.ConsensusLightClient).getParticipatingKeys = vmParticipatingKeys
//verif:model (*github.com/zen-eth/shisui/beacon.ConsensusLightClient).VerifySyncCommitteeSignature = vmVerifySig
//verif:stub noop (*github.com/zen-eth/shisui/beacon.ConsensusLightClient).logFinalityUpdate
//verif:stub havoc (*github.com/protolambda/zrnt/eth2/beacon/common.BeaconBlockHeader).HashTreeRoot
func vgLCEnv() {}

func vhSpec(committeeSize uint64) *common.Spec {
	spec := &common.Spec{}
	spec.SYNC_COMMITTEE_SIZE = view.Uint64View(committeeSize)
	return spec
}

func vhHeader(tag string) *common.BeaconBlockHeader {
	return &common.BeaconBlockHeader{Slot: common.Slot(vsU64(tag + "-slot"))}
}

func vhCommittee() *common.SyncCommittee {
	return &common.SyncCommittee{Pubkeys: make([]common.BLSPubkey, 1)}
}

// vhStoreAndUpdate: an arbitrary store (finalized <= optimistic, current committee present, next
// committee present or not) and an arbitrary update of one of the three constructor shapes.
func vhStoreAndUpdate() (*ConsensusLightClient, *GenericUpdate) {
	tree.GetHashFn = func() tree.HashFn { return nil }
	vmLC = &vmLCEnv{count: vsU64("participants"), now: vsU64("now"), finOK: vsBool("finality-branch-ok"), nextOK: vsBool("next-committee-branch-ok"), sigOK: vsBool("signature-ok")}
	vsAssume(vmLC.count <= 512)
	c := &ConsensusLightClient{Config: &Config{Spec: vhSpec(512)}}
	c.Store.FinalizedHeader = vhHeader("store-finalized")
	c.Store.OptimisticHeader = vhHeader("store-optimistic")
	vsAssume(c.Store.OptimisticHeader.Slot >= c.Store.FinalizedHeader.Slot)
	vsAssume(c.Store.OptimisticHeader.Slot < 1<<40) // slots are far below 2^64 (no wrap in slot+8192)
	c.Store.CurrentSyncCommittee = vhCommittee()
	if vsBool("store-has-next-committee") {
		c.Store.NextSyncCommittee = vhCommittee()
	}
	c.Store.PreviousMaxActiveParticipants = view.Uint64View(vsU64("prev-max") & 1023)
	c.Store.CurrentMaxActiveParticipants = view.Uint64View(vsU64("cur-max") & 1023)
	u := &GenericUpdate{
		AttestedHeader: vhHeader("attested"),
		SyncAggregate:  &altair.SyncAggregate{SyncCommitteeBits: altair.SyncCommitteeBits(vsBytesN("bits", 64))},
		SignatureSlot:  common.Slot(vsU64("signature-slot")),
	}
	vsAssume(u.SignatureSlot < 1<<40 && u.AttestedHeader.Slot < 1<<40)
	switch vsChoose("update-kind", 3) {
	case 0: // full update: next committee + finality
		u.NextSyncCommittee, u.NextSyncCommitteeBranch = vhCommittee(), &altair.SyncCommitteeProofBranch{}
		u.FinalizedHeader, u.FinalityBranch = vhHeader("update-finalized"), &altair.FinalizedRootProofBranch{}
	case 1: // finality update
		u.FinalizedHeader, u.FinalityBranch = vhHeader("update-finalized"), &altair.FinalizedRootProofBranch{}
	}
	if u.FinalizedHeader != nil {
		vsAssume(u.FinalizedHeader.Slot < 1<<40)
	}
	return c, u
}

// VerifyGenericUpdate returns nil only if every clause of the property holds.
//
//verif:harness C12.verify unwind=80 timeout=60
//verif:use lcenv
func vhC12Verify() {
	c, u := vhStoreAndUpdate()
	curKey, nextKey := &c.Store.CurrentSyncCommittee.Pubkeys[0], (*common.BLSPubkey)(nil)
	if c.Store.NextSyncCommittee != nil {
		nextKey = &c.Store.NextSyncCommittee.Pubkeys[0]
	}
	err := c.VerifyGenericUpdate(&c.Store, u, vmLC.now, common.Root{}, [4]byte{})
	if err != nil {
		vsCover("rejected")
		return
	}
	vsCover("accepted")
	n := vmGetBits(c, u.SyncAggregate.SyncCommitteeBits)
	vsAssert(n >= 1, "at-least-one-signer")
	fin := common.Slot(0)
	if u.FinalizedHeader != nil {
		fin = u.FinalizedHeader.Slot
	}
	vsAssert(uint64(u.SignatureSlot) <= vmLC.now, "signature-slot-not-in-the-future")
	vsAssert(u.SignatureSlot > u.AttestedHeader.Slot, "signature-after-attested")
	vsAssert(u.AttestedHeader.Slot >= fin, "attested-not-before-finalized")
	storeP := uint64(c.Store.FinalizedHeader.Slot) / 8192
	sigP := uint64(u.SignatureSlot) / 8192
	if c.Store.NextSyncCommittee != nil {
		vsAssert(sigP == storeP || sigP == storeP+1, "signature-period-fits-store")
	} else {
		vsAssert(sigP == storeP, "signature-period-fits-store-without-next-committee")
	}
	suppliesNext := c.Store.NextSyncCommittee == nil && u.NextSyncCommittee != nil && uint64(u.AttestedHeader.Slot)/8192 == storeP
	vsAssert(u.AttestedHeader.Slot > c.Store.FinalizedHeader.Slot || suppliesNext, "update-is-relevant")
	if u.FinalizedHeader != nil {
		vsAssert(vmLC.finCalls == 1 && vmLC.finOK, "finality-branch-checked-and-valid")
	}
	if u.NextSyncCommittee != nil {
		vsAssert(vmLC.nextCalls == 1 && vmLC.nextOK, "next-committee-branch-checked-and-valid")
	}
	vsAssert(vmLC.sigCalls == 1 && vmLC.sigOK, "aggregate-signature-checked-and-valid")
	if sigP == storeP {
		vsAssert(vmLC.partPubkey == curKey, "keys-of-the-current-committee-for-the-store-period")
		vsCover("current-committee")
	} else {
		vsAssert(vmLC.partPubkey == nextKey && nextKey != nil, "keys-of-the-next-committee-for-the-following-period")
		vsCover("next-committee")
	}
	vsAssertBytesEq(vmLC.partBits, u.SyncAggregate.SyncCommitteeBits, "exactly-the-participating-bits")
}

// ApplyGenericUpdate from an arbitrary store and ANY update (verified or not): headers never move
// backwards, optimistic stays at or ahead of finalized, the finalized header and the committees
// change only with >= 2/3 participation, the current committee rotates only to the stored next one.
//
//verif:harness C12.apply unwind=80 timeout=60
//verif:use lcenv
func vhC12Apply() {
	c, u := vhStoreAndUpdate()
	f0, o0 := c.Store.FinalizedHeader, c.Store.OptimisticHeader
	f0s, o0s := f0.Slot, o0.Slot
	cur0, next0 := c.Store.CurrentSyncCommittee, c.Store.NextSyncCommittee
	c.ApplyGenericUpdate(u)
	n := vmGetBits(c, u.SyncAggregate.SyncCommitteeBits)
	vsAssert(c.Store.FinalizedHeader.Slot >= f0s, "finalized-never-moves-backwards")
	vsAssert(c.Store.OptimisticHeader.Slot >= o0s, "optimistic-never-moves-backwards")
	vsAssert(c.Store.OptimisticHeader.Slot >= c.Store.FinalizedHeader.Slot, "optimistic-at-or-ahead-of-finalized")
	if c.Store.FinalizedHeader != f0 {
		vsAssert(n*3 >= 1024, "finalized-changes-only-with-two-thirds")
		vsAssert(c.Store.FinalizedHeader == u.FinalizedHeader, "finalized-becomes-the-updates-finalized-header")
		vsCover("finalized-advanced")
	}
	if c.Store.CurrentSyncCommittee != cur0 || c.Store.NextSyncCommittee != next0 {
		vsAssert(n*3 >= 1024, "committees-change-only-with-two-thirds")
	}
	if c.Store.CurrentSyncCommittee != cur0 {
		vsAssert(c.Store.CurrentSyncCommittee == next0 && next0 != nil, "current-rotates-only-to-the-stored-next")
		vsCover("rotated")
	}
	if c.Store.OptimisticHeader != o0 {
		vsAssert(c.Store.OptimisticHeader == u.AttestedHeader || c.Store.OptimisticHeader == c.Store.FinalizedHeader, "optimistic-becomes-attested-or-finalized")
		vsCover("optimistic-advanced")
	}
}

// Lemma: the real getBits loop equals the popcount summary (committee size reduced to 8).
//
//verif:harness C12.lemma_getbits unwind=20
//verif:exec github.com/protolambda/zrnt/eth2/beacon/altair github.com/protolambda/ztyp/bitfields
func vhC12LemmaGetBits() {
	c := &ConsensusLightClient{Config: &Config{Spec: vhSpec(8)}}
	b := altair.SyncCommitteeBits(vsBytesN("bits", 1))
	vsAssert(c.getBits(b) == vhPopcount(b), "getBits-is-popcount")
	vsCover("done")
}

var vhBranchArgs [][2]uint64

func vmRecordBranch(leaf tree.Root, branch []tree.Root, depth uint64, index uint64, root tree.Root) bool {
	vhBranchArgs = append(vhBranchArgs, [2]uint64{depth, index})
	return len(branch) >= int(depth)
}

// The three Merkle branch checks use the generalized indices of the light-client spec:
// finalized root 105 = (depth 6, index 41), next committee 55 = (5, 23), current committee 54 = (5, 22).
//
//verif:harness C12.branch_constants unwind=20
//verif:model github.com/protolambda/zrnt/eth2/util/merkle.VerifyMerkleBranch = vmRecordBranch
//verif:stub havoc (*github.com/protolambda/zrnt/eth2/beacon/common.BeaconBlockHeader).HashTreeRoot (*github.com/protolambda/zrnt/eth2/beacon/common.SyncCommittee).HashTreeRoot
func vhC12BranchConstants() {
	vhBranchArgs = nil
	tree.GetHashFn = func() tree.HashFn { return nil }
	IsFinalityProofValid(common.BeaconBlockHeader{}, common.BeaconBlockHeader{}, altair.FinalizedRootProofBranch{})
	IsNextCommitteeProofValid(common.BeaconBlockHeader{}, common.SyncCommittee{}, altair.SyncCommitteeProofBranch{})
	c := &ConsensusLightClient{Config: &Config{Spec: vhSpec(512)}}
	c.isCurrentCommitteeProofValid(common.BeaconBlockHeader{}, common.SyncCommittee{}, electra.CurrentSyncCommitteeBranch{})
	vsAssert(len(vhBranchArgs) == 3, "three-branch-checks")
	vsAssert(1<<vhBranchArgs[0][0]+vhBranchArgs[0][1] == 105, "finalized-root-gindex-105")
	vsAssert(1<<vhBranchArgs[1][0]+vhBranchArgs[1][1] == 55, "next-sync-committee-gindex-55")
	vsAssert(1<<vhBranchArgs[2][0]+vhBranchArgs[2][1] == 54, "current-sync-committee-gindex-54")
	vsCover("done")
}

// ---- bootstrap, constructors, signature domain --------------------------------------------------

type vmBootAPI struct {
	asked []common.Root
	boot  common.SpecObj
	fails bool
}

func (a *vmBootAPI) GetBootstrap(root common.Root) (common.SpecObj, error) {
	a.asked = append(a.asked, root)
	if a.fails {
		return nil, vhErrIO12
	}
	return a.boot, nil
}
func (a *vmBootAPI) GetUpdates(firstPeriod, count uint64) ([]common.SpecObj, error) { return nil, vhErrIO12 }
func (a *vmBootAPI) GetFinalityUpdate() (common.SpecObj, error)                     { return nil, vhErrIO12 }
func (a *vmBootAPI) GetOptimisticUpdate() (common.SpecObj, error)                   { return nil, vhErrIO12 }
func (a *vmBootAPI) ChainID() uint64                                                { return 1 }
func (a *vmBootAPI) Name() string                                                   { return "verif" }

var vhErrIO12 = errors.New("verif: api error")

var (
	vhBootHeaderRoot  tree.Root
	vhBootCommitteeOK bool
	vhBootAgeOK       bool
	vhBootProofCalls  int
)

func vmBootHeaderHTR(h *deneb.LightClientHeader, hFn tree.HashFn) tree.Root { return vhBootHeaderRoot }
func vmBootCommitteeProof(c *ConsensusLightClient, att common.BeaconBlockHeader, cur common.SyncCommittee, br electra.CurrentSyncCommitteeBranch) bool {
	vhBootProofCalls++
	return vhBootCommitteeOK
}
func vmBootCheckpointAge(c *ConsensusLightClient, slot common.Slot) bool { return vhBootAgeOK }
func vmRootString(r tree.Root) string                                    { return string(r[:]) }

// bootstrap() binds the store to the trusted checkpoint: it succeeds only if the served bootstrap
// header hashes to the configured checkpoint root, the current-committee branch holds, and (in
// strict mode) the checkpoint is not too old; the store then holds exactly that header and
// committee. The header hash, branch check and age check are observable models.
//
//verif:harness C12.bootstrap unwind=40
//verif:model (*github.com/protolambda/zrnt/eth2/beacon/deneb.LightClientHeader).HashTreeRoot = vmBootHeaderHTR
//verif:model (*github.com/zen-eth/shisui/beacon.ConsensusLightClient).isCurrentCommitteeProofValid = vmBootCommitteeProof
//verif:model (*github.com/zen-eth/shisui/beacon.ConsensusLightClient).isValidCheckpoint = vmBootCheckpointAge
//verif:model (github.com/protolambda/ztyp/tree.Root).String = vmRootString
func vhC12Bootstrap() {
	tree.GetHashFn = func() tree.HashFn { return nil }
	boot := &electra.LightClientBootstrap{}
	boot.Header.Beacon.Slot = common.Slot(vsU64("slot"))
	boot.Header.Beacon.StateRoot = vsArr32("state-root")
	boot.CurrentSyncCommittee.Pubkeys = make([]common.BLSPubkey, 1)
	api := &vmBootAPI{boot: boot, fails: vsBool("api-fails")}
	if vsBool("wrong-fork-type") {
		api.boot = &altair.LightClientBootstrap{}
	}
	vhBootHeaderRoot = vsArr32("header-root")
	vhBootCommitteeOK, vhBootAgeOK, vhBootProofCalls = vsBool("committee-branch-ok"), vsBool("checkpoint-age-ok"), 0
	c := &ConsensusLightClient{API: api, InitialCheckpoint: vsArr32("checkpoint"), Config: &Config{Spec: vhSpec(512), StrictCheckpointAge: vsBool("strict")}}
	err := c.bootstrap()
	if err != nil {
		vsAssert(c.Store.FinalizedHeader == nil && c.Store.CurrentSyncCommittee == nil, "failed-bootstrap-leaves-the-store-empty")
		vsCover("rejected")
		return
	}
	vsCover("accepted")
	vsAssert(!api.fails && len(api.asked) == 1 && api.asked[0] == c.InitialCheckpoint, "bootstrap-requested-for-the-checkpoint")
	vsAssert(api.boot == common.SpecObj(boot), "bootstrap-of-the-expected-fork")
	vsAssert(vhBootHeaderRoot == c.InitialCheckpoint, "header-hashes-to-the-trusted-checkpoint")
	vsAssert(vhBootProofCalls >= 1 && vhBootCommitteeOK, "current-committee-branch-holds")
	vsAssert(vhBootAgeOK || !c.Config.StrictCheckpointAge, "strict-mode-rejects-old-checkpoints")
	vsAssert(c.Store.FinalizedHeader == &boot.Header.Beacon && c.Store.OptimisticHeader == &boot.Header.Beacon, "store-holds-the-bootstrap-header")
	vsAssert(c.Store.CurrentSyncCommittee == &boot.CurrentSyncCommittee && c.Store.NextSyncCommittee == nil, "store-holds-the-bootstrap-committee")
}

var vhGenericCalls []vhGenericCall

type vhGenericCall struct {
	store    *LightClientStore
	u        *GenericUpdate
	slot     uint64
	genesis  common.Root
	version  [4]byte
	applied  bool
}

func vmVerifyGeneric(c *ConsensusLightClient, store *LightClientStore, u *GenericUpdate, expectedSlot uint64, genesisRoot common.Root, forkVersion [4]byte) error {
	vhGenericCalls = append(vhGenericCalls, vhGenericCall{store: store, u: u, slot: expectedSlot, genesis: genesisRoot, version: forkVersion})
	return nil
}

func vmApplyGeneric(c *ConsensusLightClient, u *GenericUpdate) {
	vhGenericCalls = append(vhGenericCalls, vhGenericCall{u: u, applied: true})
}

var vhForkVersionSlot common.Slot

func vmForkVersion(spec *common.Spec, slot common.Slot) common.Version {
	vhForkVersionSlot = slot
	return common.Version{9, 9, 9, 9}
}

// The typed entry points (Verify/Apply x Update/FinalityUpdate/OptimisticUpdate, for the altair,
// capella and deneb containers): the generic update they hand on refers to exactly the fields of
// the typed one (attested beacon header, aggregate, signature slot, and - where the kind has them -
// next committee + branch, finalized beacon header + branch; absent otherwise), verification runs
// against the client's own store with the expected current slot, the configured genesis root and
// the fork version of the signature slot; unknown container types are rejected.
//
//verif:harness C12.typed_entry_points unwind=40
//verif:model (*github.com/zen-eth/shisui/beacon.ConsensusLightClient).VerifyGenericUpdate = vmVerifyGeneric
//verif:model (*github.com/zen-eth/shisui/beacon.ConsensusLightClient).ApplyGenericUpdate = vmApplyGeneric
//verif:model (*github.com/zen-eth/shisui/beacon.ConsensusLightClient).expectedCurrentSlot = vmExpectedCurrentSlot
//verif:model (*github.com/protolambda/zrnt/eth2/beacon/common.Spec).ForkVersion = vmForkVersion
func vhC12TypedEntryPoints() {
	vmLC = &vmLCEnv{now: vsU64("now")}
	c := &ConsensusLightClient{Config: &Config{Spec: vhSpec(512)}}
	c.Config.Chain.GenesisRoot = vsArr32("genesis-root")
	sigSlot := common.Slot(vsU64("signature-slot"))
	var obj common.SpecObj
	var att, fin *common.BeaconBlockHeader
	var agg *altair.SyncAggregate
	var next *common.SyncCommittee
	var nextBr *altair.SyncCommitteeProofBranch
	var finBr *altair.FinalizedRootProofBranch
	kind := vsChoose("kind", 3) // 0 update, 1 finality update, 2 optimistic update
	fork := vsChoose("fork", 4) // altair, capella, deneb, something else
	switch kind*4 + fork {
	case 0:
		u := &altair.LightClientUpdate{SignatureSlot: sigSlot}
		obj, att, agg, next, nextBr, fin, finBr = u, &u.AttestedHeader.Beacon, &u.SyncAggregate, &u.NextSyncCommittee, &u.NextSyncCommitteeBranch, &u.FinalizedHeader.Beacon, &u.FinalityBranch
	case 1:
		u := &capella.LightClientUpdate{SignatureSlot: sigSlot}
		obj, att, agg, next, nextBr, fin, finBr = u, &u.AttestedHeader.Beacon, &u.SyncAggregate, &u.NextSyncCommittee, &u.NextSyncCommitteeBranch, &u.FinalizedHeader.Beacon, &u.FinalityBranch
	case 2:
		u := &deneb.LightClientUpdate{SignatureSlot: sigSlot}
		obj, att, agg, next, nextBr, fin, finBr = u, &u.AttestedHeader.Beacon, &u.SyncAggregate, &u.NextSyncCommittee, &u.NextSyncCommitteeBranch, &u.FinalizedHeader.Beacon, &u.FinalityBranch
	case 4:
		u := &altair.LightClientFinalityUpdate{SignatureSlot: sigSlot}
		obj, att, agg, fin, finBr = u, &u.AttestedHeader.Beacon, &u.SyncAggregate, &u.FinalizedHeader, &u.FinalityBranch
	case 5:
		u := &capella.LightClientFinalityUpdate{SignatureSlot: sigSlot}
		obj, att, agg, fin, finBr = u, &u.AttestedHeader.Beacon, &u.SyncAggregate, &u.FinalizedHeader.Beacon, &u.FinalityBranch
	case 6:
		u := &deneb.LightClientFinalityUpdate{SignatureSlot: sigSlot}
		obj, att, agg, fin, finBr = u, &u.AttestedHeader.Beacon, &u.SyncAggregate, &u.FinalizedHeader.Beacon, &u.FinalityBranch
	case 8:
		u := &altair.LightClientOptimisticUpdate{SignatureSlot: sigSlot}
		obj, att, agg = u, &u.AttestedHeader.Beacon, &u.SyncAggregate
	case 9:
		u := &capella.LightClientOptimisticUpdate{SignatureSlot: sigSlot}
		obj, att, agg = u, &u.AttestedHeader.Beacon, &u.SyncAggregate
	case 10:
		u := &deneb.LightClientOptimisticUpdate{SignatureSlot: sigSlot}
		obj, att, agg = u, &u.AttestedHeader.Beacon, &u.SyncAggregate
	default:
		obj = &electra.LightClientBootstrap{} // not an update container
	}
	apply := vsBool("apply")
	vhGenericCalls = nil
	var err error
	switch {
	case kind == 0 && !apply:
		err = c.VerifyUpdate(obj)
	case kind == 0:
		err = c.ApplyUpdate(obj)
	case kind == 1 && !apply:
		err = c.VerifyFinalityUpdate(obj)
	case kind == 1:
		err = c.ApplyFinalityUpdate(obj)
	case !apply:
		err = c.VerifyOptimisticUpdate(obj)
	default:
		err = c.ApplyOptimisticUpdate(obj)
	}
	if fork == 3 {
		vsAssert(err != nil && len(vhGenericCalls) == 0, "unknown-container-rejected")
		vsCover("unknown-container")
		return
	}
	vsAssert(err == nil && len(vhGenericCalls) == 1, "handed-on-once")
	g := vhGenericCalls[0]
	vsAssert(g.applied == apply, "verify-verifies-apply-applies")
	vsAssert(g.u.AttestedHeader == att && g.u.SyncAggregate == agg && g.u.SignatureSlot == sigSlot, "attested-header-aggregate-and-signature-slot-are-the-updates")
	vsAssert(g.u.NextSyncCommittee == next && g.u.NextSyncCommitteeBranch == nextBr, "next-committee-and-branch-are-the-updates-or-absent")
	vsAssert(g.u.FinalizedHeader == fin && g.u.FinalityBranch == finBr, "finalized-header-and-branch-are-the-updates-or-absent")
	if !apply {
		vsAssert(g.store == &c.Store, "verified-against-the-clients-store")
		vsAssert(g.slot == vmLC.now, "verified-against-the-expected-current-slot")
		vsAssert(g.genesis == c.Config.Chain.GenesisRoot, "signature-domain-uses-the-configured-genesis-root")
		vsAssert(vhForkVersionSlot == sigSlot && g.version == [4]byte{9, 9, 9, 9}, "signature-domain-uses-the-fork-version-of-the-signature-slot")
	}
	vsCover("handed-on")
}

var vhSigArgs struct {
	calls   int
	keys    []*blsu.Pubkey
	msg     []byte
	sig     *blsu.Signature
	domType common.BLSDomainType
	domVer  common.Version
	domGen  common.Root
	srRoot  common.Root
	srDom   common.BLSDomain
}

var vhPubkeyObjs = map[common.BLSPubkey]*blsu.Pubkey{}

func vmPubkey(p *common.BLSPubkey) (*blsu.Pubkey, error) {
	for k, v := range vhPubkeyObjs {
		if k == *p {
			return v, nil
		}
	}
	o := new(blsu.Pubkey)
	vhPubkeyObjs[*p] = o
	return o, nil
}

var vhSigObj = new(blsu.Signature)

func vmSignature(s *common.BLSSignature) (*blsu.Signature, error) { return vhSigObj, nil }

func vmFastAggregateVerify(pubkeys []*blsu.Pubkey, message []byte, signature *blsu.Signature) bool {
	vhSigArgs.calls++
	vhSigArgs.keys, vhSigArgs.msg, vhSigArgs.sig = pubkeys, append([]byte(nil), message...), signature
	vhSigVerdict = vsBool("bls-verdict")
	return vhSigVerdict
}

var vhSigVerdict bool

var vhDomainOut, vhSigningRootOut [32]byte

func vmComputeDomain(t common.BLSDomainType, v common.Version, g common.Root) common.BLSDomain {
	vhSigArgs.domType, vhSigArgs.domVer, vhSigArgs.domGen = t, v, g
	return common.BLSDomain(vhDomainOut)
}

func vmComputeSigningRoot(root common.Root, domain common.BLSDomain) common.Root {
	vhSigArgs.srRoot, vhSigArgs.srDom = root, domain
	return common.Root(vhSigningRootOut)
}

var vhAttRoot [32]byte

func vmHeaderHTR(h *common.BeaconBlockHeader, hFn tree.HashFn) tree.Root { return tree.Root(vhAttRoot) }

// VerifySyncCommitteeSignature: the aggregate is checked for exactly the given keys, in order,
// over the signing root of the attested header's root under the sync-committee domain (type
// 0x07000000) of the given fork version and genesis root; the verdict is the BLS verdict.
//
//verif:harness C12.signature_domain unwind=40
//verif:model (*github.com/protolambda/zrnt/eth2/beacon/common.BLSPubkey).Pubkey = vmPubkey
//verif:model (*github.com/protolambda/zrnt/eth2/beacon/common.BLSSignature).Signature = vmSignature
//verif:model github.com/protolambda/bls12-381-util.FastAggregateVerify = vmFastAggregateVerify
//verif:model github.com/protolambda/zrnt/eth2/beacon/common.ComputeDomain = vmComputeDomain
//verif:model github.com/zen-eth/shisui/beacon.ComputeSigningRoot = vmComputeSigningRoot
//verif:model (*github.com/protolambda/zrnt/eth2/beacon/common.BeaconBlockHeader).HashTreeRoot = vmHeaderHTR
//verif:exec github.com/ethereum/go-ethereum/common/hexutil encoding/hex
func vhC12SignatureDomain() {
	tree.GetHashFn = func() tree.HashFn { return nil }
	k := vsChoose("keys", 4)
	pks := make([]common.BLSPubkey, k)
	for i := range pks {
		pks[i][0], pks[i][1] = byte(i+1), vsU8("key-byte")
	}
	vhAttRoot, vhDomainOut, vhSigningRootOut = vsArr32("attested-root"), vsArr32("domain"), vsArr32("signing-root")
	genesis := common.Root(vsArr32("genesis-root"))
	var version [4]byte
	copy(version[:], vsBytesN("fork-version", 4))
	c := &ConsensusLightClient{Config: &Config{Spec: vhSpec(512)}}
	vhSigArgs.calls = 0
	ok, err := c.VerifySyncCommitteeSignature(pks, common.BeaconBlockHeader{}, common.BLSSignature{}, genesis, version)
	vsAssert(err == nil && vhSigArgs.calls == 1, "aggregate-checked-once")
	vsAssert(vhSigArgs.domType == common.BLSDomainType{7, 0, 0, 0}, "sync-committee-domain-type")
	vsAssert(vhSigArgs.domVer == common.Version(version) && vhSigArgs.domGen == genesis, "domain-of-the-given-fork-version-and-genesis-root")
	vsAssert(vhSigArgs.srRoot == common.Root(vhAttRoot) && vhSigArgs.srDom == common.BLSDomain(vhDomainOut), "signing-root-of-the-attested-header-under-that-domain")
	vsAssert(bytes.Equal(vhSigArgs.msg, vhSigningRootOut[:]), "message-is-the-signing-root")
	vsAssert(vhSigArgs.sig == vhSigObj, "the-updates-signature")
	vsAssert(len(vhSigArgs.keys) == k, "exactly-the-given-keys")
	for i := range pks {
		want, _ := vmPubkey(&pks[i])
		vsAssert(vhSigArgs.keys[i] == want, "keys-in-committee-order")
	}
	vsAssert(ok == vhSigVerdict, "verdict-is-the-bls-verdict")
	vsCover("done")
}

// getParticipatingKeys returns exactly the committee keys whose participation bit is set, in
// committee order (committee of 8, every bit pattern).
//
//verif:harness C12.lemma_participating_keys unwind=20
//verif:exec github.com/protolambda/zrnt/eth2/beacon/altair github.com/protolambda/ztyp/bitfields
func vhC12LemmaParticipatingKeys() {
	c := &ConsensusLightClient{Config: &Config{Spec: vhSpec(8)}}
	b := altair.SyncCommitteeBits(vsBytesN("bits", 1))
	committee := common.SyncCommittee{Pubkeys: make([]common.BLSPubkey, 8)}
	for i := range committee.Pubkeys {
		committee.Pubkeys[i][0] = byte(i + 1)
	}
	keys := c.getParticipatingKeys(committee, b)
	vsAssert(uint64(len(keys)) == vhPopcount(b), "one-key-per-set-bit")
	j := 0
	for i := 0; i < 8; i++ {
		if b[0]>>uint(i)&1 == 1 {
			vsAssert(keys[j][0] == byte(i+1), "keys-of-the-set-bits-in-order")
			j++
		}
	}
	vsCover("done")
}
