//go:build verif

package history

type vhCodec interface {
	MarshalSSZ() ([]byte, error)
	UnmarshalSSZ([]byte) error
}

func init() {
	vsRegister("C14.hist_header_with_proof", vhC14HeaderWithProof)
	vsRegister("C14.hist_proof_containers", vhC14ProofContainers)
	vsRegister("C14.hist_ephemeral_payload", vhC14EphemeralPayload)
	vsRegister("C14.hist_canonical", vhC14HistCanonical)
}

// BlockHeaderWithProof (header <= 8192, proof <= 1024): value round trip and over-limit rejection.
//
//verif:harness C14.hist_header_with_proof unwind=8 native
func vhC14HeaderWithProof() {
	hn, pn := vsInt("header-len"), vsInt("proof-len")
	vsAssume(hn >= 0 && hn <= 8300 && pn >= 0 && pn <= 1100)
	h, p := vsBytesN("header", hn), vsBytesN("proof", pn)
	enc, err := (&BlockHeaderWithProof{Header: h, Proof: p}).MarshalSSZ()
	if hn > 8192 || pn > 1024 {
		if err == nil {
			vsAssert(new(BlockHeaderWithProof).UnmarshalSSZ(enc) != nil, "over-limit-encoding-rejected")
		}
		vsCover("over-limit")
		return
	}
	vsAssert(err == nil, "in-limit-encodes")
	var d BlockHeaderWithProof
	vsAssert(d.UnmarshalSSZ(enc) == nil, "decodes")
	vsAssertBytesEq(d.Header, h, "header-intact")
	vsAssertBytesEq(d.Proof, p, "proof-intact")
	if hn == 8192 && pn == 1024 {
		vsCover("both-at-limit")
	}
}

func vhChunks(tag string, n int) [][]byte {
	out := make([][]byte, n)
	for i := range out {
		out[i] = vsBytesN(tag, 32)
	}
	return out
}

// The three fixed-size post-merge proof containers: value round trip, any other size rejected.
//
//verif:harness C14.hist_proof_containers unwind=40 native
func vhC14ProofContainers() {
	slot := vsU64("slot")
	root := vsBytesN("root", 32)
	var m, d vhCodec
	var size int
	switch vsChoose("type", 3) {
	case 0:
		m, d, size = &BlockProofHistoricalRoots{BeaconBlockProof: vhChunks("b", 14), BeaconBlockRoot: root, ExecutionBlockProof: vhChunks("e", 11), Slot: slot}, &BlockProofHistoricalRoots{}, 26*32+8
	case 1:
		m, d, size = &BlockProofHistoricalSummariesCapella{BeaconBlockProof: vhChunks("b", 13), BeaconBlockRoot: root, ExecutionBlockProof: vhChunks("e", 11), Slot: slot}, &BlockProofHistoricalSummariesCapella{}, 25*32+8
	default:
		m, d, size = &BlockProofHistoricalSummariesDeneb{BeaconBlockProof: vhChunks("b", 13), BeaconBlockRoot: root, ExecutionBlockProof: vhChunks("e", 12), Slot: slot}, &BlockProofHistoricalSummariesDeneb{}, 26*32+8
	}
	enc, err := m.MarshalSSZ()
	vsAssert(err == nil && len(enc) == size, "encodes-to-fixed-size")
	vsAssert(d.UnmarshalSSZ(enc) == nil, "decodes")
	enc2, err := d.MarshalSSZ()
	vsAssert(err == nil, "re-encodes")
	vsAssertBytesEq(enc2, enc, "round-trip-identical")
	// any other length is rejected
	delta := 1 + vsChoose("delta", 2)
	vsAssert(d.UnmarshalSSZ(enc[:size-delta]) != nil, "short-input-rejected")
	vsAssert(d.UnmarshalSSZ(append(append([]byte(nil), enc...), make([]byte, delta)...)) != nil, "long-input-rejected")
	vsCover("done")
}

// EphemeralHeaderPayload (<= 256 headers of <= 2048 bytes): value round trip for 0..K headers.
//
//verif:harness C14.hist_ephemeral_payload unwind=40 native
//verif:param K=2/3
func vhC14EphemeralPayload() {
	k := vsChoose("headers", vsParam("K")+1)
	items := make([][]byte, k)
	over := false
	for i := range items {
		var n int
		if k == 1 {
			n = vsInt("n")
			vsAssume(n >= 0 && n <= 2100)
		} else {
			n = []int{0, 1, 5}[vsChoose("len", 3)]
		}
		if n > 2048 {
			over = true
		}
		items[i] = vsBytesN("header", n)
	}
	enc, err := (&EphemeralHeaderPayload{Payload: items}).MarshalSSZ()
	var d EphemeralHeaderPayload
	if over {
		if err == nil {
			vsAssert(d.UnmarshalSSZ(enc) != nil, "over-limit-encoding-rejected")
		}
		vsCover("over-limit")
		return
	}
	vsAssert(err == nil, "in-limit-encodes")
	if k == 0 {
		// the empty payload (fixed finding KF-C14-2: its own encoding used to be rejected)
		vsAssert(d.UnmarshalSSZ(enc) == nil && len(d.Payload) == 0, "empty-payload/decodes")
		vsCover("empty-payload")
		return
	}
	vsAssert(d.UnmarshalSSZ(enc) == nil, "decodes")
	vsAssert(len(d.Payload) == k, "same-count")
	for i := range items {
		vsAssertBytesEq(d.Payload[i], items[i], "header-intact")
	}
	vsCover("round-trip")
}

// Canonical decoding for the variable-size history containers: any accepted input re-encodes
// to itself.
//
//verif:harness C14.hist_canonical unwind=40 native
//verif:param L=16/28
func vhC14HistCanonical() {
	b := vsBytes("b", vsParam("L"))
	var m vhCodec
	switch vsChoose("type", 3) {
	case 0:
		m = &BlockHeaderWithProof{}
	case 1:
		m = &EphemeralHeaderPayload{}
	default:
		m = &FindContentEphemeralHeadersKey{}
	}
	if m.UnmarshalSSZ(b) != nil {
		vsCover("rejects")
		return
	}
	enc, err := m.MarshalSSZ()
	vsAssert(err == nil, "decoded-value-re-encodes")
	vsAssertBytesEq(enc, b, "re-encoding-equals-input")
	vsCover("accepts")
}
