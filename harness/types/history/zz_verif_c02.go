//go:build verif

package history

import (
	"bytes"
	"io"

	"github.com/ethereum/go-ethereum/rlp"
)

func init() {
	vsRegister("C02.header_bytes_strict", vhC02HeaderBytesStrict)
}

// Contract models of go-ethereum's two RLP entry points (the reflection-driven field decoding is a
// dependency and has an arbitrary outcome here; what differs between them is how much input they
// insist on consuming):
//   rlp.DecodeBytes(b, v)  fails unless b is exactly one RLP value (ErrMoreThanOneValue otherwise)
//   rlp.Decode(r, v)       decodes the first value of the stream and leaves the rest unread

var vhErrRlpFields = rlp.ErrExpectedList

func vmRlpFields() error {
	if vsChoose("rlp-fields-decode", 2) == 0 {
		return vhErrRlpFields
	}
	return nil
}

func vmRlpDecodeBytes(b []byte, val interface{}) error {
	_, _, rest, err := rlp.Split(b)
	if err != nil {
		return err
	}
	if len(rest) > 0 {
		return rlp.ErrMoreThanOneValue
	}
	return vmRlpFields()
}

func vmRlpDecode(r io.Reader, val interface{}) error {
	br, ok := r.(*bytes.Reader)
	if !ok {
		return vhErrRlpFields
	}
	buf := make([]byte, br.Len())
	br.Read(buf)
	if _, _, _, err := rlp.Split(buf); err != nil {
		return err
	}
	return vmRlpFields()
}

// A header is decoded only from bytes that are EXACTLY one RLP value: anything after the header's
// list (an "extension" mutation of a genuine header) makes DecodeBlockHeader fail, so the stored
// Header field of an accepted item is the header's own encoding and nothing else.
//
//verif:harness C02.header_bytes_strict unwind=60
//verif:model github.com/ethereum/go-ethereum/rlp.DecodeBytes = vmRlpDecodeBytes
//verif:model github.com/ethereum/go-ethereum/rlp.Decode = vmRlpDecode
//verif:exec github.com/ethereum/go-ethereum/rlp.Split github.com/ethereum/go-ethereum/rlp.readKind github.com/ethereum/go-ethereum/rlp.readSize bytes
//verif:param L=12/24
func vhC02HeaderBytesStrict() {
	b := vsBytes("header-bytes", vsParam("L"))
	h, err := DecodeBlockHeader(b)
	if err != nil {
		vsCover("rejected")
		return
	}
	vsAssert(h != nil, "header-returned")
	_, _, rest, serr := rlp.Split(b)
	vsAssert(serr == nil && len(rest) == 0, "accepted-header-bytes-are-exactly-one-rlp-value")
	vsCover("accepted")
}
