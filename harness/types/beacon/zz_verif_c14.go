//go:build verif

package beacon

import (
	"bytes"

	"github.com/protolambda/zrnt/eth2/beacon/altair"
	"github.com/protolambda/zrnt/eth2/beacon/capella"
	"github.com/protolambda/zrnt/eth2/beacon/common"
	"github.com/protolambda/zrnt/eth2/beacon/deneb"
	"github.com/protolambda/zrnt/eth2/beacon/electra"
	"github.com/protolambda/ztyp/codec"
)

func init() {
	vsRegister("C14.beacon_keys", vhC14BeaconKeys)
	vsRegister("C14.beacon_summaries_value", vhC14BeaconSummariesValue)
	vsRegister("C14.beacon_summaries_canonical", vhC14BeaconSummariesCanonical)
	vsRegister("C14.beacon_optimistic_update", vhC14BeaconOptimisticUpdate)
	vsRegister("C14.beacon_digest_dispatch", vhC14BeaconDigestDispatch)
}

type vhCodec interface {
	MarshalSSZ() ([]byte, error)
	UnmarshalSSZ([]byte) error
}

func vhCanonical(m vhCodec, b []byte, name string) {
	if m.UnmarshalSSZ(b) != nil {
		vsCover("rejects")
		return
	}
	enc, err := m.MarshalSSZ()
	vsAssert(err == nil, "decoded-value-re-encodes")
	vsAssertBytesEq(enc, b, "re-encoding-equals-input")
	vsCover("accepts-" + name)
}

// Beacon content keys: value -> bytes -> value, and any accepted byte string (0..40 bytes)
// re-encodes to itself.
//
//verif:harness C14.beacon_keys unwind=60 native
//verif:exec github.com/protolambda/ztyp/codec github.com/protolambda/ztyp/view github.com/protolambda/zrnt/eth2/beacon/common bytes
func vhC14BeaconKeys() {
	b := vsBytes("b", 40)
	u, w := vsU64("u"), vsU64("w")
	switch vsChoose("type", 5) {
	case 0:
		v := LightClientUpdateKey{StartPeriod: u, Count: w}
		enc, err := v.MarshalSSZ()
		var d LightClientUpdateKey
		vsAssert(err == nil && len(enc) == 16 && d.UnmarshalSSZ(enc) == nil && d == v, "update-key-round-trip")
		vhCanonical(&LightClientUpdateKey{}, b, "update-key")
	case 1:
		h := vsBytesN("hash", 32)
		v := LightClientBootstrapKey{BlockHash: h}
		enc, err := v.MarshalSSZ()
		var d LightClientBootstrapKey
		vsAssert(err == nil && len(enc) == 32 && d.UnmarshalSSZ(enc) == nil, "bootstrap-key-round-trip")
		vsAssertBytesEq(d.BlockHash, h, "bootstrap-key-hash")
		short := LightClientBootstrapKey{BlockHash: vsBytesN("short-hash", 31)}
		if enc, err = short.MarshalSSZ(); err == nil {
			vsAssert(d.UnmarshalSSZ(enc) != nil, "bootstrap-key-wrong-size-rejected")
		}
		vhCanonical(&LightClientBootstrapKey{}, b, "bootstrap-key")
	case 2:
		v := LightClientFinalityUpdateKey{FinalizedSlot: u}
		enc, err := v.MarshalSSZ()
		var d LightClientFinalityUpdateKey
		vsAssert(err == nil && len(enc) == 8 && d.UnmarshalSSZ(enc) == nil && d == v, "finality-key-round-trip")
		vhCanonical(&LightClientFinalityUpdateKey{}, b, "finality-key")
	case 3:
		v := LightClientOptimisticUpdateKey{OptimisticSlot: u}
		enc, err := v.MarshalSSZ()
		var d LightClientOptimisticUpdateKey
		vsAssert(err == nil && len(enc) == 8 && d.UnmarshalSSZ(enc) == nil && d == v, "optimistic-key-round-trip")
		vhCanonical(&LightClientOptimisticUpdateKey{}, b, "optimistic-key")
	default:
		v := HistoricalSummariesWithProofKey{Epoch: u}
		var buf bytes.Buffer
		vsAssert(v.Serialize(codec.NewEncodingWriter(&buf)) == nil && buf.Len() == 8, "summaries-key-encodes")
		var d HistoricalSummariesWithProofKey
		vsAssert(d.Deserialize(codec.NewDecodingReader(bytes.NewReader(buf.Bytes()), 8)) == nil && d == v, "summaries-key-round-trip")
		var c HistoricalSummariesWithProofKey
		if c.Deserialize(codec.NewDecodingReader(bytes.NewReader(b), uint64(len(b)))) == nil {
			var out bytes.Buffer
			vsAssert(c.Serialize(codec.NewEncodingWriter(&out)) == nil, "summaries-key-re-encodes")
			vsAssertBytesEq(out.Bytes(), b, "re-encoding-equals-input")
			vsCover("accepts-summaries-key")
		}
	}
}

// vhSpec: the two mainnet preset constants the codecs under test read (vhSpec itself is
// parsed from embedded YAML at start-up, which is outside the encoding).
var vhSpec = func() *common.Spec {
	s := &common.Spec{}
	s.HISTORICAL_ROOTS_LIMIT = 16777216
	s.SYNC_COMMITTEE_SIZE = 512
	return s
}()

func vhSummariesEnc(v *ForkedHistoricalSummariesWithProof) ([]byte, error) {
	var buf bytes.Buffer
	err := v.Serialize(vhSpec, codec.NewEncodingWriter(&buf))
	return buf.Bytes(), err
}

func vhSummariesDec(v *ForkedHistoricalSummariesWithProof, b []byte) error {
	return v.Deserialize(vhSpec, codec.NewDecodingReader(bytes.NewReader(b), uint64(len(b))))
}

// ForkedHistoricalSummariesWithProof (digest + epoch + 0..2 summaries + 6-root proof): value ->
// bytes -> value.
//
//verif:harness C14.beacon_summaries_value unwind=60
//verif:exec github.com/protolambda/ztyp/codec github.com/protolambda/ztyp/view github.com/protolambda/ztyp/tree github.com/protolambda/zrnt/eth2/beacon/common github.com/protolambda/zrnt/eth2/beacon/capella bytes
func vhC14BeaconSummariesValue() {
	k := vsChoose("summaries", 3)
	var v ForkedHistoricalSummariesWithProof
	copy(v.ForkDigest[:], vsBytesN("digest", 4))
	v.HistoricalSummariesWithProof.EPOCH = common.Epoch(vsU64("epoch"))
	for i := 0; i < k; i++ {
		v.HistoricalSummariesWithProof.HistoricalSummaries = append(v.HistoricalSummariesWithProof.HistoricalSummaries,
			capella.HistoricalSummary{BlockSummaryRoot: common.Root(vsArr32("block-root")), StateSummaryRoot: common.Root(vsArr32("state-root"))})
	}
	for i := range v.HistoricalSummariesWithProof.Proof.Proof {
		v.HistoricalSummariesWithProof.Proof.Proof[i] = common.Bytes32(vsArr32("proof"))
	}
	enc, err := vhSummariesEnc(&v)
	vsAssert(err == nil && len(enc) == 4+8+4+192+64*k, "summaries-encode")
	var d ForkedHistoricalSummariesWithProof
	vsAssert(vhSummariesDec(&d, enc) == nil, "summaries-decode")
	vsAssert(d.ForkDigest == v.ForkDigest && d.HistoricalSummariesWithProof.EPOCH == v.HistoricalSummariesWithProof.EPOCH, "summaries-digest-and-epoch")
	vsAssert(d.HistoricalSummariesWithProof.Proof == v.HistoricalSummariesWithProof.Proof, "summaries-proof")
	vsAssert(len(d.HistoricalSummariesWithProof.HistoricalSummaries) == k, "summaries-count")
	for i := 0; i < k; i++ {
		vsAssert(d.HistoricalSummariesWithProof.HistoricalSummaries[i] == v.HistoricalSummariesWithProof.HistoricalSummaries[i], "summaries-item")
	}
	vsCover("round-trip")
}

// Any byte string of 0..L bytes that decodes as a ForkedHistoricalSummariesWithProof re-encodes to
// itself.
//
//verif:harness C14.beacon_summaries_canonical unwind=60
//verif:exec github.com/protolambda/ztyp/codec github.com/protolambda/ztyp/view github.com/protolambda/ztyp/tree github.com/protolambda/zrnt/eth2/beacon/common github.com/protolambda/zrnt/eth2/beacon/capella bytes
//verif:param L=280/340
func vhC14BeaconSummariesCanonical() {
	b := vsBytes("b", vsParam("L"))
	var d ForkedHistoricalSummariesWithProof
	if vhSummariesDec(&d, b) != nil {
		vsCover("rejects")
		return
	}
	enc, err := vhSummariesEnc(&d)
	vsAssert(err == nil, "decoded-value-re-encodes")
	vsAssertBytesEq(enc, b, "re-encoding-equals-input")
	vsCover("accepts")
	if len(d.HistoricalSummariesWithProof.HistoricalSummaries) == 1 {
		vsCover("accepts-one-summary")
	}
}

// ForkedLightClientOptimisticUpdate: the fork digest selects the payload type, the digest and the
// payload survive value -> bytes -> value (altair payload, real zrnt codec), an unknown digest is
// rejected.
//
//verif:harness C14.beacon_optimistic_update unwind=600
//verif:exec github.com/protolambda/ztyp/codec github.com/protolambda/ztyp/view github.com/protolambda/ztyp/tree github.com/protolambda/zrnt/eth2/beacon/common github.com/protolambda/zrnt/eth2/beacon/altair github.com/protolambda/zrnt/eth2/beacon/capella github.com/protolambda/zrnt/eth2/beacon/deneb github.com/protolambda/ztyp/bitfields bytes
func vhC14BeaconOptimisticUpdate() {
	spec := vhSpec
	in := &altair.LightClientOptimisticUpdate{SignatureSlot: common.Slot(vsU64("signature-slot"))}
	in.AttestedHeader.Beacon.Slot = common.Slot(vsU64("slot"))
	in.AttestedHeader.Beacon.ProposerIndex = common.ValidatorIndex(vsU64("proposer"))
	in.AttestedHeader.Beacon.ParentRoot = common.Root(vsArr32("parent"))
	in.AttestedHeader.Beacon.StateRoot = common.Root(vsArr32("state"))
	in.AttestedHeader.Beacon.BodyRoot = common.Root(vsArr32("body"))
	in.SyncAggregate.SyncCommitteeBits = altair.SyncCommitteeBits(vsBytesN("bits", 64))
	copy(in.SyncAggregate.SyncCommitteeSignature[:], vsBytesN("sig", 96))
	v := ForkedLightClientOptimisticUpdate{ForkDigest: Bellatrix, LightClientOptimisticUpdate: in}
	var buf bytes.Buffer
	vsAssert(v.Serialize(spec, codec.NewEncodingWriter(&buf)) == nil, "optimistic-encodes")
	enc := buf.Bytes()
	vsAssert(len(enc) == 4+112+64+96+8, "optimistic-size")
	var d ForkedLightClientOptimisticUpdate
	vsAssert(d.Deserialize(spec, codec.NewDecodingReader(bytes.NewReader(enc), uint64(len(enc)))) == nil, "optimistic-decodes")
	out, ok := d.LightClientOptimisticUpdate.(*altair.LightClientOptimisticUpdate)
	vsAssert(ok && d.ForkDigest == Bellatrix, "optimistic-digest-and-type")
	vsAssert(out.SignatureSlot == in.SignatureSlot && out.AttestedHeader == in.AttestedHeader, "optimistic-header-and-slot")
	vsAssertBytesEq(out.SyncAggregate.SyncCommitteeBits, in.SyncAggregate.SyncCommitteeBits, "optimistic-bits")
	vsAssert(out.SyncAggregate.SyncCommitteeSignature == in.SyncAggregate.SyncCommitteeSignature, "optimistic-signature")
	vsAssert(d.GetSignatureSlot() == uint64(in.SignatureSlot), "optimistic-signature-slot-getter")

	// digest dispatch: arbitrary first four bytes
	copy(enc[:4], vsBytesN("digest", 4))
	var e ForkedLightClientOptimisticUpdate
	err := e.Deserialize(spec, codec.NewDecodingReader(bytes.NewReader(enc), uint64(len(enc))))
	known := e.ForkDigest == Bellatrix || e.ForkDigest == Capella || e.ForkDigest == Deneb || e.ForkDigest == Electra
	if !known {
		vsAssert(err != nil, "unknown-digest-rejected")
		vsCover("unknown-digest")
		return
	}
	switch e.LightClientOptimisticUpdate.(type) {
	case *altair.LightClientOptimisticUpdate:
		vsAssert(e.ForkDigest == Bellatrix, "digest-selects-type")
	case *capella.LightClientOptimisticUpdate:
		vsAssert(e.ForkDigest == Capella, "digest-selects-type")
	case *deneb.LightClientOptimisticUpdate:
		vsAssert(e.ForkDigest == Deneb || e.ForkDigest == Electra, "digest-selects-type")
	default:
		vsFail("digest-selects-type")
	}
}

// Fork-digest tagging of bootstrap / update / finality-update containers: for ANY four leading
// bytes the decoder keeps them as the digest, rejects an unknown digest, and hands the rest to the
// payload type of that fork (Bellatrix -> altair, Capella -> capella, Deneb -> deneb, Electra ->
// electra); the payload decoders themselves (zrnt) are arbitrary-outcome stubs here.
//
//verif:harness C14.beacon_digest_dispatch unwind=40
//verif:exec github.com/protolambda/ztyp/codec bytes
//verif:stub havoc (*github.com/protolambda/zrnt/eth2/beacon/altair.LightClientBootstrap).Deserialize (*github.com/protolambda/zrnt/eth2/beacon/capella.LightClientBootstrap).Deserialize (*github.com/protolambda/zrnt/eth2/beacon/deneb.LightClientBootstrap).Deserialize (*github.com/protolambda/zrnt/eth2/beacon/electra.LightClientBootstrap).Deserialize (*github.com/protolambda/zrnt/eth2/beacon/altair.LightClientUpdate).Deserialize (*github.com/protolambda/zrnt/eth2/beacon/capella.LightClientUpdate).Deserialize (*github.com/protolambda/zrnt/eth2/beacon/deneb.LightClientUpdate).Deserialize (*github.com/protolambda/zrnt/eth2/beacon/electra.LightClientUpdate).Deserialize (*github.com/protolambda/zrnt/eth2/beacon/altair.LightClientFinalityUpdate).Deserialize (*github.com/protolambda/zrnt/eth2/beacon/capella.LightClientFinalityUpdate).Deserialize (*github.com/protolambda/zrnt/eth2/beacon/deneb.LightClientFinalityUpdate).Deserialize (*github.com/protolambda/zrnt/eth2/beacon/electra.LightClientFinalityUpdate).Deserialize
func vhC14BeaconDigestDispatch() {
	b := vsBytesN("b", 8)
	var digest common.ForkDigest
	copy(digest[:], b[:4])
	dr := codec.NewDecodingReader(bytes.NewReader(b), uint64(len(b)))
	var payload common.SpecObj
	var got common.ForkDigest
	var err error
	kind := vsChoose("container", 3)
	switch kind {
	case 0:
		var v ForkedLightClientBootstrap
		err = v.Deserialize(vhSpec, dr)
		payload, got = v.Bootstrap, v.ForkDigest
	case 1:
		var v ForkedLightClientUpdate
		err = v.Deserialize(vhSpec, dr)
		payload, got = v.LightClientUpdate, v.ForkDigest
	default:
		var v ForkedLightClientFinalityUpdate
		err = v.Deserialize(vhSpec, dr)
		payload, got = v.LightClientFinalityUpdate, v.ForkDigest
	}
	vsAssert(got == digest, "digest-kept")
	fork := -1
	for i, d := range []common.ForkDigest{Bellatrix, Capella, Deneb, Electra} {
		if digest == d {
			fork = i
		}
	}
	if fork < 0 {
		vsAssert(err != nil, "unknown-digest-rejected")
		vsCover("unknown-digest")
		return
	}
	ok := false
	switch payload.(type) {
	case *altair.LightClientBootstrap:
		ok = kind == 0 && fork == 0
	case *capella.LightClientBootstrap:
		ok = kind == 0 && fork == 1
	case *deneb.LightClientBootstrap:
		ok = kind == 0 && fork == 2
	case *electra.LightClientBootstrap:
		ok = kind == 0 && fork == 3
	case *altair.LightClientUpdate:
		ok = kind == 1 && fork == 0
	case *capella.LightClientUpdate:
		ok = kind == 1 && fork == 1
	case *deneb.LightClientUpdate:
		ok = kind == 1 && fork == 2
	case *electra.LightClientUpdate:
		ok = kind == 1 && fork == 3
	case *altair.LightClientFinalityUpdate:
		ok = kind == 2 && fork == 0
	case *capella.LightClientFinalityUpdate:
		ok = kind == 2 && fork == 1
	case *deneb.LightClientFinalityUpdate:
		ok = kind == 2 && fork == 2
	case *electra.LightClientFinalityUpdate:
		ok = kind == 2 && fork == 3
	}
	vsAssert(ok, "digest-selects-the-payload-type-of-its-fork")
	if fork == 3 {
		vsCover("electra")
	}
}
