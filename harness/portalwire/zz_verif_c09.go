//go:build verif

package portalwire

import (
	"bytes"
	"net"

	"github.com/holiman/uint256"
)

func init() {
	vsRegister("C09.handle_offer", vhC09HandleOffer)
}

// handleOffer for offers of 0..K keys, both protocol versions, every mix of in-range / stored /
// in-flight keys, slot available or not, full or empty validation queue, any stream the offerer
// then sends: one verdict per key in order; accepted only if admitted by the in-range test, not
// stored, (v1) not in flight and a slot was obtained; a connection id is announced exactly when a
// key is accepted and then a receiver is really waiting on it; what reaches the validation queue
// is the decoded stream paired with the accepted keys in order, or nothing on a count mismatch.
//
//verif:harness C09.handle_offer unwind=40 timeout=60
//verif:use offerenv
//verif:go after
//verif:param K=2/3
func vhC09HandleOffer() {
	k := vsChoose("keys", vsParam("K")+1)
	ver := uint8(vsChoose("version", 2))
	limit := vsChoose("slots", 2) // 0 or 1 inbound slot
	st := &vmStorage{radius: new(uint256.Int).SetBytes32(vsBytesN("radius", 32))}
	p := vhOfferProto(limit, protocolVersions{ver}, st)
	peer := vhNode(0, []uint8{ver})
	vmEnv.cidSend = vsU16("cid")
	self := vsArr32("self")
	vsAssume(vmSelfNode.ID() == self)
	queueFull := vsChoose("queue-full", 2) == 1
	if queueFull {
		p.contentQueue <- &ContentElement{}
	}
	keys := make([][]byte, k)
	stored := make([]bool, k)
	inflight := make([]bool, k)
	for i := range keys {
		keys[i] = vsBytesN("key", 32)
		for j := 0; j < i; j++ {
			vsAssume(!bytes.Equal(keys[i], keys[j]))
		}
		if stored[i] = vsBool("stored"); stored[i] {
			st.stored = append(st.stored, keys[i])
		}
		if inflight[i] = vsBool("inflight"); inflight[i] {
			vmFCSet(p.transferringKeyCache, keys[i], EmptyBytes)
		}
	}
	// the stream the offerer will send: j items of one byte each
	j := vsChoose("stream-items", vsParam("K")+2)
	items := make([][]byte, j)
	for i := range items {
		items[i] = vsBytesN("item", 1)
	}
	vmEnv.stream = encodeContents(items)

	resp, err := p.handleOffer(peer, &net.UDPAddr{}, &Offer{ContentKeys: keys})
	vsAssert(err == nil, "offer-answered")
	vsAssert(len(resp) > 0 && resp[0] == ACCEPT, "reply-is-accept")
	var acc CommonAccept
	if ver == 0 {
		acc = &Accept{}
	} else {
		acc = &AcceptV1{}
	}
	vsAssert(acc.UnmarshalSSZ(resp[1:]) == nil, "reply-decodes")
	vsAssert(acc.GetKeyLength() == k, "one-verdict-per-key")
	idx := acc.GetAcceptIndices()
	accepted := make([]bool, k)
	prev := -1
	for _, ix := range idx {
		vsAssert(ix > prev && ix < k, "accepted-indices-ascending-and-in-range")
		prev = ix
		accepted[ix] = true
	}
	var acceptedKeys [][]byte
	for i := range keys {
		if accepted[i] {
			dist := make([]byte, 32)
			for b := range dist {
				dist[b] = keys[i][b] ^ self[b]
			}
			vsAssert(bytes.Compare(dist, vhBE32(st.radius)) < 0, "accepted-only-if-in-range")
			vsAssert(!stored[i], "accepted-only-if-not-stored")
			if ver == 1 {
				vsAssert(!inflight[i], "accepted-only-if-not-in-flight")
			}
			if ver == 0 {
				// Region of the version-0 rate-limit case (the bit list keeps its bits)
				vsAssert(limit > 0, "v0/accepted-only-if-slot-obtained")
			} else {
				vsAssert(limit > 0, "accepted-only-if-slot-obtained")
			}
			acceptedKeys = append(acceptedKeys, keys[i])
		}
	}
	cid := uint16(acc.GetConnectionId()[0])<<8 | uint16(acc.GetConnectionId()[1])
	started := vsPendingTasks() > 0
	if len(idx) > 0 {
		if ver == 0 {
			vsAssert(started, "v0/accepted-means-a-receiver-was-started")
		} else {
			vsAssert(started, "accepted-means-a-receiver-was-started")
		}
		if started {
			vsAssert(cid == vmEnv.cidSend, "announced-connection-id-is-the-one-waited-on")
		}
		vsCover("some-accepted")
	} else {
		vsAssert(!started, "nothing-accepted-means-no-receiver")
		vsAssert(cid == 0, "nothing-accepted-means-no-connection-id")
		vsCover("none-accepted")
	}
	// let the receive task run to completion
	vsRunTasks()
	var got *ContentElement
	if queueFull {
		<-p.contentQueue // the pre-existing element
	}
	select {
	case got = <-p.contentQueue:
	default:
	}
	if started && j == len(acceptedKeys) && !queueFull {
		vsAssert(got != nil, "matching-stream-is-handed-to-validation")
		vsAssert(len(got.ContentKeys) == len(acceptedKeys) && len(got.Contents) == j, "keys-and-contents-paired")
		for i := range acceptedKeys {
			vsAssert(bytes.Equal(got.ContentKeys[i], acceptedKeys[i]), "accepted-keys-in-order")
			vsAssert(bytes.Equal(got.Contents[i], items[i]), "contents-in-order")
		}
		vsCover("handed-to-validation")
	}
	if !started || j != len(acceptedKeys) {
		vsAssert(got == nil, "count-mismatch-or-no-transfer-enqueues-nothing")
	}
	vsAssert(vhFreeSlots(p.Utp.GetInboundPermit, limit) == limit, "inbound-slots-all-returned")
}

func vhBE32(x *uint256.Int) []byte { b := x.Bytes32(); return b[:] }

func init() {
	vsRegister("C09.process_accept", vhC09ProcessAccept)
}

// Offering side: for an ACCEPT reply (either encoding) over an offer of 1..K items, what is written
// to the stream is exactly the contents of the accepted keys, in key order, framed as a content
// list; a verdict count that differs from the offer starts no transfer.
//
//verif:harness C09.process_accept unwind=40 timeout=60
//verif:use offerenv
//verif:go after
//verif:param K=2/3
func vhC09ProcessAccept() {
	ver := uint8(vsChoose("version", 2))
	st := &vmStorage{radius: uint256.NewInt(0).SetAllOne()}
	p := vhOfferProto(1, protocolVersions{ver}, st)
	peer := vhNode(0, []uint8{ver})
	k := 1 + vsChoose("keys", vsParam("K"))
	kind := vsChoose("kind", 2)
	req := vhOfferRequestOf(kind, k)
	if kind == 1 {
		for i := 0; i < k; i++ {
			st.stored = append(st.stored, []byte{byte(i + 1)})
		}
	}
	// the peer's verdicts: m verdicts, a symbolic subset accepted
	m := vsChoose("verdicts", vsParam("K")+2)
	acceptBits := make([]bool, m)
	for i := range acceptBits {
		acceptBits[i] = vsBool("accepted")
	}
	cid := []byte{vsU8("cid-hi"), vsU8("cid-lo")}
	var reply []byte
	if ver == 0 {
		bl := make([]byte, m/8+1)
		for i, a := range acceptBits {
			if a {
				bl[i/8] |= 1 << uint(i%8)
			}
		}
		bl[m/8] |= 1 << uint(m%8)
		enc, err := (&Accept{ConnectionId: cid, ContentKeys: bl}).MarshalSSZ()
		vsAssume(err == nil)
		reply = append([]byte{ACCEPT}, enc...)
	} else {
		codes := make([]byte, m)
		for i, a := range acceptBits {
			if a {
				codes[i] = byte(Accepted)
			} else {
				codes[i] = byte(GenericDeclined)
			}
		}
		enc, err := (&AcceptV1{ConnectionId: cid, ContentKeys: codes}).MarshalSSZ()
		vsAssume(err == nil)
		reply = append([]byte{ACCEPT}, enc...)
	}
	permit, _ := p.Utp.GetOutboundPermit()
	_, err := p.processOffer(peer, reply, req, permit)
	started := vsPendingTasks() > 0
	vsRunTasks()
	any := false
	var want [][]byte
	for i, a := range acceptBits {
		if a {
			any = true
			if i < k {
				if kind == 1 {
					want = append(want, []byte{0xaa}) // what vmStorage.Get returns
				} else {
					want = append(want, []byte{byte(0x10 + i)})
				}
			}
		}
	}
	if m != k {
		vsAssert(err != nil && !started, "wrong-verdict-count-starts-no-transfer")
		vsCover("wrong-count")
		return
	}
	vsAssert(err == nil, "reply-processed")
	vsAssert(started == any, "transfer-started-iff-something-accepted")
	if any {
		vsAssert(bytes.Equal(vmEnv.written, encodeContents(want)), "stream-is-the-accepted-contents-in-order")
		vsCover("transfer")
	} else {
		vsCover("all-declined")
	}
}

func vhOfferRequestOf(kind, k int) *OfferRequest { return vhOfferRequest(kind, k) }
