//go:build verif

package portalwire

import (
	"net/netip"
	"time"

	"github.com/ethereum/go-ethereum/common/mclock"
	"github.com/ethereum/go-ethereum/p2p/enode"
	"github.com/ethereum/go-ethereum/p2p/netutil"
)

// ---------------------------------------------------------------------------------------------
// Routing-table harness (C07 invariants, C18 displacement rules): ONE arbitrary table operation
// from an ARBITRARY table state that satisfies the invariant (inductive step, DESIGN.md app. C).
// Addresses come from a pool of three (two of them in the same /24); a node's address, its
// LAN-ness, sequence number and UDP port are ghost attributes.
// ---------------------------------------------------------------------------------------------

const vhPool = 4

var (
	vhAddrs  [vhPool]netip.Addr
	vhSubnet = [vhPool]int{0, 0, 1, 1} // pool addresses 0 and 1 share a /24; address 3 is a LAN address
	vhLAN    [vhPool]bool
	vhNetSet = map[*netutil.DistinctNetSet]*[2]uint{} // per set: members per /24
)

type vmTabGhost struct {
	addr int // index into the pool (symbolic)
	seq  uint64
	udp  int
	tcp  int // portal records normally carry none (0); arbitrary in {0, 30303}
}

var vmTabNodes = map[*enode.Node]*vmTabGhost{}

// vhAddrIndex: pool addresses are 10.0.<subnet>.<index>; the index is the last byte.
func vhAddrIndex(ip netip.Addr) int {
	b := ip.As4()
	return int(b[3] & 3)
}

func vmTabIPAddr(n *enode.Node) netip.Addr {
	i := vmTabNodes[n].addr
	return netip.AddrFrom4([4]byte{10, 0, byte(vhSubnet[i]), byte(i)})
}
func vmTabSeq(n *enode.Node) uint64     { return vmTabNodes[n].seq }
func vmTabUDP(n *enode.Node) int        { return vmTabNodes[n].udp }
func vmTabTCP(n *enode.Node) int        { return vmTabNodes[n].tcp }
func vmAddrIsValid(ip netip.Addr) bool  { return true }
func vmAddrIsUnspec(ip netip.Addr) bool { return false }
func vmAddrIsLAN(ip netip.Addr) bool    { return vhLAN[vhAddrIndex(ip)] }

func vhSetState(s *netutil.DistinctNetSet) *[2]uint {
	st := vhNetSet[s]
	if st == nil {
		st = &[2]uint{}
		vhNetSet[s] = st
	}
	return st
}

// DistinctNetSet contract: at most Limit members per subnet.
func vmNetSetAdd(s *netutil.DistinctNetSet, ip netip.Addr) bool {
	st, k := vhSetState(s), vhSubnet[vhAddrIndex(ip)]
	if st[k] < s.Limit {
		st[k]++
		return true
	}
	return false
}

func vmNetSetRemove(s *netutil.DistinctNetSet, ip netip.Addr) {
	st, k := vhSetState(s), vhSubnet[vhAddrIndex(ip)]
	if st[k] > 0 {
		st[k]--
	}
}

type vmClock struct{}

func (vmClock) Now() mclock.AbsTime                          { return 1000 }
func (vmClock) Sleep(time.Duration)                          {}
func (vmClock) NewTimer(time.Duration) mclock.ChanTimer      { return nil }
func (vmClock) After(time.Duration) <-chan mclock.AbsTime    { return nil }
func (vmClock) AfterFunc(time.Duration, func()) mclock.Timer { return nil }

var vhRandIntn int // the value the next Intn call returns (already chosen by the harness)

func vmIntn(r *reseedingRandom, n int) int {
	v := vsChoose("rand-intn", n)
	vhRandIntn = v
	return v
}
func vmInt63n(r *reseedingRandom, n int64) int64 { return 0 }

var vhFindFails int

func vmFindFails(db *enode.DB, id enode.ID, ip netip.Addr) int { return vhFindFails }

//verif:group tablestep
//verif:use logdist
//verif:model (*github.com/ethereum/go-ethereum/p2p/enode.Node).ID = vmNodeID
//verif:model (*github.com/ethereum/go-ethereum/p2p/enode.Node).IPAddr = vmTabIPAddr
//verif:model (*github.com/ethereum/go-ethereum/p2p/enode.Node).Seq = vmTabSeq
//verif:model (*github.com/ethereum/go-ethereum/p2p/enode.Node).UDP = vmTabUDP
//verif:model (*github.com/ethereum/go-ethereum/p2p/enode.Node).TCP = vmTabTCP
//verif:exec net/netip.AddrFrom4 (net/netip.Addr).As4 (net/netip.Addr).v4 (net/netip.uint128).halves net/netip.ipv6Slash96 internal/byteorder
//verif:model (net/netip.Addr).IsValid = vmAddrIsValid
//verif:model (net/netip.Addr).IsUnspecified = vmAddrIsUnspec
//verif:model github.com/ethereum/go-ethereum/p2p/netutil.AddrIsLAN = vmAddrIsLAN
//verif:model (*github.com/ethereum/go-ethereum/p2p/netutil.DistinctNetSet).AddAddr = vmNetSetAdd
//verif:model (*github.com/ethereum/go-ethereum/p2p/netutil.DistinctNetSet).RemoveAddr = vmNetSetRemove
//verif:model (*github.com/zen-eth/shisui/portalwire.reseedingRandom).Intn = vmIntn
//verif:model (*github.com/zen-eth/shisui/portalwire.reseedingRandom).Int63n = vmInt63n
//verif:model (*github.com/ethereum/go-ethereum/p2p/enode.DB).FindFails = vmFindFails
//verif:stub noop (*github.com/ethereum/go-ethereum/p2p/enode.DB).UpdateFindFails (*github.com/ethereum/go-ethereum/p2p/enode.DB).UpdateNode
//verif:stub noop time.Now (time.Time).Equal (net/netip.Addr).String (*github.com/ethereum/go-ethereum/p2p/enode.Node).String
func vgTableStep() {}

// Node ids are the local id XOR a delta whose leading one bit is CONCRETE (so the log-distance and
// the bucket are concrete), whose lower bits of the first two bytes are symbolic, and whose last
// byte is a tag (concrete for pre-state nodes, so they are pairwise distinct by construction;
// symbolic for the candidate of the operation).
var vhBucketDelta = map[int][2]byte{16: {0x80, 0}, 15: {0x40, 0}, 1: {0, 0x01}, 0: {0, 0}}

func vhIDInBucket(selfID enode.ID, bucketIndex int, tag byte) enode.ID {
	id := selfID
	d := vhBucketDelta[bucketIndex]
	switch bucketIndex {
	case 16:
		id[0] ^= d[0] | vsU8("id-free")&0x7f
		id[1] ^= vsU8("id-free")
	case 15:
		id[0] ^= d[0] | vsU8("id-free")&0x3f
		id[1] ^= vsU8("id-free")
	case 1:
		id[1] ^= d[1]
		id[2] ^= vsU8("id-free")
	default: // bucket 0: everything at distance <= 240
		id[2] ^= 0x10 | vsU8("id-free")&0x0f
	}
	id[31] ^= tag
	return id
}

func vhTabNodeID(id enode.ID) *enode.Node { return vhTabNodeIDAddr(id, int(vsU8("addr"))) }

func vhTabNodeIDAddr(id enode.ID, addr int) *enode.Node {
	n := new(enode.Node)
	g := &vmNodeGhost{loadOutcome: 1, id: id}
	vmNodes[n] = g
	vmNodesList = append(vmNodesList, g)
	vmTabNodes[n] = &vmTabGhost{addr: addr & 3, seq: vsU64("seq") & 3, udp: 30000 + int(vsU8("port")&1), tcp: 30303 * int(vsU8("tcp")&1)}
	return n
}

type vhTabState struct {
	tab         *Table
	self        *enode.Node
	selfID      enode.ID
	b           *bucket
	entries     []*tableNode // snapshot of the bucket before the step
	repls       []*tableNode
	checks      []uint
	live        []bool
	onFast      []bool
	records     []*enode.Node
	initDone    bool
	bucketIndex int
}

// vhMakeTable builds the pre-state: bucket b with k entries and m replacements satisfying the
// invariant: ids pairwise distinct, not the local id, all in bucket b; every non-LAN member is
// counted in the bucket and table address sets (counters may over-count, never exceed the limits);
// every entry on exactly one revalidation list, replacements on none.
func vhMakeTable(k, m int) *vhTabState {
	for i := range vhAddrs {
		vhAddrs[i] = netip.AddrFrom4([4]byte{10, 0, byte(vhSubnet[i]), byte(i)})
		vhLAN[i] = vsBool("pool-addr-is-lan")
	}
	vhLAN[3] = true
	s := &vhTabState{selfID: enode.ID(vsArr32("self"))}
	s.self = new(enode.Node)
	vmNodes[s.self] = &vmNodeGhost{loadOutcome: 1, id: s.selfID}
	vmTabNodes[s.self] = &vmTabGhost{}
	tab := &Table{net: &vmTransport{self: s.self}, initDone: make(chan struct{})}
	tab.cfg.Clock = vmClock{}
	tab.ips = netutil.DistinctNetSet{Subnet: tableSubnet, Limit: tableIPLimit}
	for i := range tab.buckets {
		tab.buckets[i] = &bucket{index: i, ips: netutil.DistinctNetSet{Subnet: bucketSubnet, Limit: bucketIPLimit}}
	}
	tab.revalidation.activeReq = map[enode.ID]struct{}{}
	tab.revalidation.fast.nextTime, tab.revalidation.slow.nextTime = never, never
	tab.revalidation.fast.interval, tab.revalidation.slow.interval = time.Second, 3*time.Second
	tab.revalidation.fast.name, tab.revalidation.slow.name = "fast", "slow"
	if s.initDone = vhInitDoneChoice(); s.initDone {
		close(tab.initDone)
	}
	s.tab = tab
	s.bucketIndex = []int{16, 0, 15, 1}[vsChoose("bucket", vsParam("BUCKETS"))]
	s.b = tab.buckets[s.bucketIndex]
	count := 0
	mk := func() *enode.Node {
		count++
		// the first three nodes have arbitrary pool addresses, the bulk of a full bucket is on the LAN
		addr := 3
		if count <= 3 {
			addr = int(vsU8("addr"))
		}
		n := vhTabNodeIDAddr(vhIDInBucket(s.selfID, s.bucketIndex, byte(count)), addr)
		// address accounting (non-LAN members are counted in both sets; fork-free arithmetic)
		g := vmTabNodes[n]
		inc := uint(1)
		if vhLAN[g.addr] {
			inc = 0
		}
		bs, ts, sub := vhSetState(&s.b.ips), vhSetState(&tab.ips), vhSubnet[g.addr]
		bs[sub] += inc
		ts[sub] += inc
		vsAssume(bs[sub] <= bucketIPLimit && ts[sub] <= tableIPLimit)
		return n
	}
	for i := 0; i < k; i++ {
		tn := &tableNode{Node: mk(), livenessChecks: uint(vsU8("checks") & 15), isValidatedLive: vsBool("validated-live")}
		fast := i < 1 && vsBool("on-fast-list")
		if fast {
			tab.revalidation.fast.nodes = append(tab.revalidation.fast.nodes, tn)
			tn.revalList = &tab.revalidation.fast
		} else {
			tab.revalidation.slow.nodes = append(tab.revalidation.slow.nodes, tn)
			tn.revalList = &tab.revalidation.slow
		}
		s.b.entries = append(s.b.entries, tn)
		s.entries = append(s.entries, tn)
		s.checks = append(s.checks, tn.livenessChecks)
		s.live = append(s.live, tn.isValidatedLive)
		s.onFast = append(s.onFast, fast)
		s.records = append(s.records, tn.Node)
	}
	for i := 0; i < m; i++ {
		tn := &tableNode{Node: mk()}
		s.b.replacements = append(s.b.replacements, tn)
		s.repls = append(s.repls, tn)
	}
	// the table-wide set may also count members of other buckets (arbitrary, within the limit)
	return s
}

// vhInitDone: whether the table finished initialising (matters for inbound adds only).
var vhInitDoneSymbolic bool

func vhInitDoneChoice() bool {
	if vhInitDoneSymbolic {
		return vsBool("init-done")
	}
	return true
}

func vhIndexOf(list []*tableNode, tn *tableNode) int {
	for i, x := range list {
		if x == tn {
			return i
		}
	}
	return -1
}

// vhCheckInvariant: the C07 invariants on every bucket of the table.
func (s *vhTabState) vhCheckInvariant() {
	tab := s.tab
	var ids []enode.ID
	tableSubnets := [2]int{}
	for _, b := range tab.buckets {
		vsAssert(len(b.entries) <= bucketSize, "bucket-holds-at-most-16-entries")
		vsAssert(len(b.replacements) <= maxReplacements, "bucket-holds-at-most-10-replacements")
		bucketSubnets := [2]int{}
		for _, list := range [][]*tableNode{b.entries, b.replacements} {
			for _, tn := range list {
				id := tn.ID()
				vsAssert(id != s.selfID, "local-node-never-in-table")
				vsAssert(tab.bucket(id) == b, "node-sits-in-the-bucket-of-its-log-distance")
				for _, o := range ids {
					vsAssert(o != id, "node-id-at-most-once-in-table")
				}
				ids = append(ids, id)
				g := vmTabNodes[tn.Node]
				inc := 1
				if vhLAN[g.addr] {
					inc = 0
				}
				bucketSubnets[vhSubnet[g.addr]] += inc
				tableSubnets[vhSubnet[g.addr]] += inc
			}
		}
		vsAssert(bucketSubnets[0] <= bucketIPLimit && bucketSubnets[1] <= bucketIPLimit, "at-most-2-nodes-per-slash24-in-a-bucket")
		// the inductive part of the address invariant: the bucket's address set accounts for every
		// non-LAN member (it may over-count, it must never under-count - otherwise later adds
		// slip past the limit)
		bs := vhSetState(&b.ips)
		vsAssert(int(bs[0]) >= bucketSubnets[0] && int(bs[1]) >= bucketSubnets[1], "bucket-address-set-accounts-for-every-member")
		for _, tn := range b.entries {
			onFast := vhIndexOf(tab.revalidation.fast.nodes, tn) >= 0
			onSlow := vhIndexOf(tab.revalidation.slow.nodes, tn) >= 0
			vsAssert(onFast != onSlow, "entry-on-exactly-one-revalidation-list")
			vsAssert((tn.revalList == &tab.revalidation.fast) == onFast && tn.revalList != nil, "entry-list-pointer-consistent")
		}
		for _, tn := range b.replacements {
			vsAssert(tn.revalList == nil, "replacement-on-no-revalidation-list")
		}
	}
	vsAssert(tableSubnets[0] <= tableIPLimit && tableSubnets[1] <= tableIPLimit, "at-most-10-nodes-per-slash24-in-the-table")
	ts := vhSetState(&tab.ips)
	vsAssert(int(ts[0]) >= tableSubnets[0] && int(ts[1]) >= tableSubnets[1], "table-address-set-accounts-for-every-member")
}
