//go:build verif

package portalwire

import (
	"errors"
	"time"

	"github.com/ethereum/go-ethereum/p2p/enode"
	"github.com/ethereum/go-ethereum/p2p/enr"
	cache "github.com/go-pkgz/expirable-cache/v3"
)

// ---------------------------------------------------------------------------------------------
// Environment models shared by the portalwire harnesses. Everything here is ordinary Go that the
// symbolic executor runs instead of the real environment (via //verif:model), and that is never
// called natively.
// ---------------------------------------------------------------------------------------------

// Ghost attributes of an opaque *enode.Node.
type vmNodeGhost struct {
	loadOutcome int // 0 = "pv" entry present and decodable, 1 = key not found, 2 = other error
	versions    []uint8
}

var vmNodes = map[*enode.Node]*vmNodeGhost{}

var (
	vmErrNotFound = errors.New("verif: enr key not found")
	vmErrLoad     = errors.New("verif: enr entry malformed")
)

//verif:group enr
//verif:model (*github.com/ethereum/go-ethereum/p2p/enode.Node).Load = vmNodeLoad
//verif:model github.com/ethereum/go-ethereum/p2p/enr.IsNotFound = vmIsNotFound
func vgEnr() {}

func vmNodeLoad(n *enode.Node, e enr.Entry) error {
	g := vmNodes[n]
	if g == nil || g.loadOutcome == 1 {
		return vmErrNotFound
	}
	if g.loadOutcome == 2 {
		return vmErrLoad
	}
	if pv, ok := e.(*protocolVersions); ok {
		*pv = protocolVersions(g.versions)
	}
	return nil
}

func vmIsNotFound(err error) bool { return err == vmErrNotFound }

// vmVersionCache models expirable-cache: a finite association list, no expiry within one call
// sequence (the real TTL is 5 minutes).
type vmVersionCache struct {
	keys []*enode.Node
	vals []uint8
}

var _ cache.Cache[*enode.Node, uint8] = (*vmVersionCache)(nil)

func (c *vmVersionCache) Get(k *enode.Node) (uint8, bool) {
	for i := range c.keys {
		if c.keys[i] == k {
			return c.vals[i], true
		}
	}
	return 0, false
}
func (c *vmVersionCache) Set(k *enode.Node, v uint8, ttl time.Duration) {
	for i := range c.keys {
		if c.keys[i] == k {
			c.vals[i] = v
			return
		}
	}
	c.keys = append(c.keys, k)
	c.vals = append(c.vals, v)
}
func (c *vmVersionCache) Add(k *enode.Node, v uint8) bool                       { panic("unused") }
func (c *vmVersionCache) GetExpiration(k *enode.Node) (time.Time, bool)         { panic("unused") }
func (c *vmVersionCache) GetOldest() (*enode.Node, uint8, bool)                 { panic("unused") }
func (c *vmVersionCache) Contains(k *enode.Node) bool                           { _, ok := c.Get(k); return ok }
func (c *vmVersionCache) Peek(k *enode.Node) (uint8, bool)                      { return c.Get(k) }
func (c *vmVersionCache) Values() []uint8                                       { return c.vals }
func (c *vmVersionCache) Keys() []*enode.Node                                   { return c.keys }
func (c *vmVersionCache) Len() int                                              { return len(c.keys) }
func (c *vmVersionCache) Remove(k *enode.Node) bool                             { panic("unused") }
func (c *vmVersionCache) Invalidate(k *enode.Node)                              { panic("unused") }
func (c *vmVersionCache) InvalidateFn(fn func(k *enode.Node) bool)              { panic("unused") }
func (c *vmVersionCache) RemoveOldest() (*enode.Node, uint8, bool)              { panic("unused") }
func (c *vmVersionCache) DeleteExpired()                                        {}
func (c *vmVersionCache) Purge()                                                { c.keys, c.vals = nil, nil }
func (c *vmVersionCache) Resize(int) int                                        { return 0 }
func (c *vmVersionCache) Stat() cache.Stats                                     { return cache.Stats{} }
func (c *vmVersionCache) String() string                                        { return "vmVersionCache" }
func (c *vmVersionCache) WithTTL(time.Duration) cache.Cache[*enode.Node, uint8] { return c }
func (c *vmVersionCache) WithMaxKeys(int) cache.Cache[*enode.Node, uint8]       { return c }
func (c *vmVersionCache) WithLRU() cache.Cache[*enode.Node, uint8]              { return c }
func (c *vmVersionCache) WithOnEvicted(func(*enode.Node, uint8)) cache.Cache[*enode.Node, uint8] {
	return c
}

// vhNode builds a peer node whose ENR "pv" entry has the given outcome. Natively a real signed
// record; symbolically an opaque node with ghost attributes.
func vhNode(outcome int, versions []uint8) *enode.Node {
	if vsNative() {
		var r enr.Record
		switch outcome {
		case 0:
			r.Set(protocolVersions(versions))
		case 2:
			r.Set(enr.WithEntry("pv", []uint64{1, 2}))
		}
		return enode.SignNull(&r, enode.ID{1})
	}
	n := new(enode.Node)
	vmNodes[n] = &vmNodeGhost{loadOutcome: outcome, versions: versions}
	return n
}

func vhVersionCache() cache.Cache[*enode.Node, uint8] {
	if vsNative() {
		return cache.NewCache[*enode.Node, uint8]()
	}
	return &vmVersionCache{}
}

// ---- stub groups -----------------------------------------------------------------------------

// Opaque peer node: accessors return a value memoised per node (attr), so n.ID() is the same
// symbolic 32 bytes every time.
//
//verif:group node
//verif:stub attr (*github.com/ethereum/go-ethereum/p2p/enode.Node).ID (*github.com/ethereum/go-ethereum/p2p/enode.Node).Seq (*github.com/ethereum/go-ethereum/p2p/enode.Node).UDP (*github.com/ethereum/go-ethereum/p2p/enode.Node).TCP (*github.com/ethereum/go-ethereum/p2p/enode.Node).IP (*github.com/ethereum/go-ethereum/p2p/enode.Node).IPAddr (*github.com/ethereum/go-ethereum/p2p/enode.Node).Record
//verif:stub havoc (net.IP).To4
//verif:stub noop (net.IP).String (github.com/ethereum/go-ethereum/p2p/enode.ID).String (*github.com/ethereum/go-ethereum/p2p/enode.Node).String (*net.UDPAddr).String
func vgNode() {}

// The routing table behind its request channels: every answer is arbitrary.
//
//verif:group tablestub
//verif:stub havoc,nilable (*github.com/zen-eth/shisui/portalwire.Table).getNode (*github.com/zen-eth/shisui/portalwire.Table).getNodeOrReplacement
//verif:stub havoc (*github.com/zen-eth/shisui/portalwire.Table).addInboundNode (*github.com/zen-eth/shisui/portalwire.Table).addFoundNode
//verif:stub noop (*github.com/zen-eth/shisui/portalwire.Table).trackRequest
func vgTableStub() {}
