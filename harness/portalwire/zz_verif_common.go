//go:build verif

package portalwire

import (
	"bytes"
	"context"
	"errors"
	"math/bits"
	"net"
	"time"

	"github.com/VictoriaMetrics/fastcache"
	"github.com/ethereum/go-ethereum/p2p/discover"
	"github.com/ethereum/go-ethereum/p2p/enode"
	"github.com/ethereum/go-ethereum/p2p/enr"
	cache "github.com/go-pkgz/expirable-cache/v3"
	"github.com/holiman/uint256"
	"github.com/zen-eth/shisui/storage"
	utp "github.com/zen-eth/utp-go"
)

// ---------------------------------------------------------------------------------------------
// Environment models shared by the portalwire harnesses. Everything here is ordinary Go that the
// symbolic executor runs instead of the real environment (via //verif:model), and that is never
// called natively.
// ---------------------------------------------------------------------------------------------

// Ghost attributes of an opaque *enode.Node.
type vmNodeGhost struct {
	loadOutcome int // 0 = "pv" entry present and decodable, 1 = key not found, 2 = other error
	versions    []uint8
	id          enode.ID
	ip          net.IP // identity of this slice stands for the node's address
	relayOK     bool   // whether that address may be relayed to the current asker
	udp         int
}

var vmNodes = map[*enode.Node]*vmNodeGhost{}

var (
	vmErrNotFound = errors.New("verif: enr key not found")
	vmErrLoad     = errors.New("verif: enr entry malformed")
)

//verif:group enr
//verif:model (*github.com/ethereum/go-ethereum/p2p/enode.Node).Load = vmNodeLoad
//verif:model github.com/ethereum/go-ethereum/p2p/enr.IsNotFound = vmIsNotFound
func vgEnr() {}

func vmNodeLoad(n *enode.Node, e enr.Entry) error {
	g := vmNodes[n]
	if g == nil || g.loadOutcome == 1 {
		return vmErrNotFound
	}
	if g.loadOutcome == 2 {
		return vmErrLoad
	}
	if pv, ok := e.(*protocolVersions); ok {
		*pv = protocolVersions(g.versions)
	}
	return nil
}

func vmIsNotFound(err error) bool { return err == vmErrNotFound }

// vmVersionCache models expirable-cache: a finite association list, no expiry within one call
// sequence (the real TTL is 5 minutes).
type vmVersionCache struct {
	keys []*enode.Node
	vals []uint8
}

var _ cache.Cache[*enode.Node, uint8] = (*vmVersionCache)(nil)

func (c *vmVersionCache) Get(k *enode.Node) (uint8, bool) {
	for i := range c.keys {
		if c.keys[i] == k {
			return c.vals[i], true
		}
	}
	return 0, false
}
func (c *vmVersionCache) Set(k *enode.Node, v uint8, ttl time.Duration) {
	for i := range c.keys {
		if c.keys[i] == k {
			c.vals[i] = v
			return
		}
	}
	c.keys = append(c.keys, k)
	c.vals = append(c.vals, v)
}
func (c *vmVersionCache) Add(k *enode.Node, v uint8) bool                       { panic("unused") }
func (c *vmVersionCache) GetExpiration(k *enode.Node) (time.Time, bool)         { panic("unused") }
func (c *vmVersionCache) GetOldest() (*enode.Node, uint8, bool)                 { panic("unused") }
func (c *vmVersionCache) Contains(k *enode.Node) bool                           { _, ok := c.Get(k); return ok }
func (c *vmVersionCache) Peek(k *enode.Node) (uint8, bool)                      { return c.Get(k) }
func (c *vmVersionCache) Values() []uint8                                       { return c.vals }
func (c *vmVersionCache) Keys() []*enode.Node                                   { return c.keys }
func (c *vmVersionCache) Len() int                                              { return len(c.keys) }
func (c *vmVersionCache) Remove(k *enode.Node) bool                             { panic("unused") }
func (c *vmVersionCache) Invalidate(k *enode.Node)                              { panic("unused") }
func (c *vmVersionCache) InvalidateFn(fn func(k *enode.Node) bool)              { panic("unused") }
func (c *vmVersionCache) RemoveOldest() (*enode.Node, uint8, bool)              { panic("unused") }
func (c *vmVersionCache) DeleteExpired()                                        {}
func (c *vmVersionCache) Purge()                                                { c.keys, c.vals = nil, nil }
func (c *vmVersionCache) Resize(int) int                                        { return 0 }
func (c *vmVersionCache) Stat() cache.Stats                                     { return cache.Stats{} }
func (c *vmVersionCache) String() string                                        { return "vmVersionCache" }
func (c *vmVersionCache) WithTTL(time.Duration) cache.Cache[*enode.Node, uint8] { return c }
func (c *vmVersionCache) WithMaxKeys(int) cache.Cache[*enode.Node, uint8]       { return c }
func (c *vmVersionCache) WithLRU() cache.Cache[*enode.Node, uint8]              { return c }
func (c *vmVersionCache) WithOnEvicted(func(*enode.Node, uint8)) cache.Cache[*enode.Node, uint8] {
	return c
}

// vhNode builds a peer node whose ENR "pv" entry has the given outcome. Natively a real signed
// record; symbolically an opaque node with ghost attributes.
func vhNode(outcome int, versions []uint8) *enode.Node {
	if vsNative() {
		var r enr.Record
		switch outcome {
		case 0:
			r.Set(protocolVersions(versions))
		case 2:
			r.Set(enr.WithEntry("pv", []uint64{1, 2}))
		}
		return enode.SignNull(&r, enode.ID{1})
	}
	return vhNodeWithID(outcome, versions, enode.ID(vsArr32("node-id")))
}

// vhNodeWithID: an opaque node whose id is the given (symbolic) value.
func vhNodeWithID(outcome int, versions []uint8, id enode.ID) *enode.Node {
	n := new(enode.Node)
	g := &vmNodeGhost{loadOutcome: outcome, versions: versions, id: id}
	vmNodes[n] = g
	vmNodesList = append(vmNodesList, g)
	return n
}

// vmNodeID: the ghost id of harness-made nodes; any other node (e.g. the local node) has an
// arbitrary but fixed id.
func vmNodeID(n *enode.Node) enode.ID {
	if g := vmNodes[n]; g != nil {
		return g.id
	}
	g := &vmNodeGhost{loadOutcome: 1, id: enode.ID(vsArr32("other-node-id"))}
	vmNodes[n] = g
	vmNodesList = append(vmNodesList, g)
	return g.id
}

func vhVersionCache() cache.Cache[*enode.Node, uint8] {
	if vsNative() {
		return cache.NewCache[*enode.Node, uint8]()
	}
	return &vmVersionCache{}
}

// ---- stub groups -----------------------------------------------------------------------------

// Opaque peer node: accessors return a value memoised per node (attr), so n.ID() is the same
// symbolic 32 bytes every time.
//
//verif:group node
//verif:model (*github.com/ethereum/go-ethereum/p2p/enode.Node).ID = vmNodeID
//verif:model (*github.com/ethereum/go-ethereum/p2p/enode.LocalNode).Node = vmLocalNode
//verif:stub attr (*github.com/ethereum/go-ethereum/p2p/enode.Node).Seq (*github.com/ethereum/go-ethereum/p2p/enode.Node).UDP (*github.com/ethereum/go-ethereum/p2p/enode.Node).TCP (*github.com/ethereum/go-ethereum/p2p/enode.Node).IP (*github.com/ethereum/go-ethereum/p2p/enode.Node).IPAddr (*github.com/ethereum/go-ethereum/p2p/enode.Node).Record
//verif:stub havoc (net.IP).To4
//verif:model (github.com/ethereum/go-ethereum/p2p/enode.ID).String = vmIDString
//verif:stub noop (net.IP).String (net/netip.Addr).String (*github.com/ethereum/go-ethereum/p2p/enode.Node).String (*net.UDPAddr).String
func vgNode() {}

// vmIDString: an injective rendering of the id (the real one is its hex form); it is only used as
// a cache key and in log lines.
func vmIDString(id enode.ID) string { return string(id[:]) }

// The routing table behind its request channels: every answer is arbitrary.
//
//verif:group tablestub
//verif:stub havoc,nilable (*github.com/zen-eth/shisui/portalwire.Table).getNode (*github.com/zen-eth/shisui/portalwire.Table).getNodeOrReplacement
//verif:stub havoc (*github.com/zen-eth/shisui/portalwire.Table).addInboundNode (*github.com/zen-eth/shisui/portalwire.Table).addFoundNode
//verif:stub noop (*github.com/zen-eth/shisui/portalwire.Table).trackRequest
func vgTableStub() {}

// ---- fastcache model: last-write-wins association list per cache -------------------------------

type vmFC struct {
	keys, vals [][]byte
}

var vmFCs = map[*fastcache.Cache]*vmFC{}

func vmFCOf(c *fastcache.Cache) *vmFC {
	f := vmFCs[c]
	if f == nil {
		f = &vmFC{}
		vmFCs[c] = f
	}
	return f
}

//verif:group fastcache
//verif:model (*github.com/VictoriaMetrics/fastcache.Cache).Set = vmFCSet
//verif:model (*github.com/VictoriaMetrics/fastcache.Cache).Get = vmFCGet
//verif:model (*github.com/VictoriaMetrics/fastcache.Cache).HasGet = vmFCHasGet
//verif:model (*github.com/VictoriaMetrics/fastcache.Cache).Has = vmFCHas
//verif:model (*github.com/VictoriaMetrics/fastcache.Cache).Del = vmFCDel
func vgFastcache() {}

func (f *vmFC) find(k []byte) int {
	for i := range f.keys {
		if bytes.Equal(f.keys[i], k) {
			return i
		}
	}
	return -1
}

func vmFCSet(c *fastcache.Cache, k, v []byte) {
	f := vmFCOf(c)
	if i := f.find(k); i >= 0 {
		f.vals[i] = append([]byte(nil), v...)
		return
	}
	f.keys = append(f.keys, append([]byte(nil), k...))
	f.vals = append(f.vals, append([]byte(nil), v...))
}

func vmFCGet(c *fastcache.Cache, dst, k []byte) []byte {
	f := vmFCOf(c)
	if i := f.find(k); i >= 0 {
		return append(dst, f.vals[i]...)
	}
	return dst
}

func vmFCHasGet(c *fastcache.Cache, dst, k []byte) ([]byte, bool) {
	f := vmFCOf(c)
	if i := f.find(k); i >= 0 {
		return append(dst, f.vals[i]...), true
	}
	return dst, false
}

func vmFCHas(c *fastcache.Cache, k []byte) bool { return vmFCOf(c).find(k) >= 0 }

func vmFCDel(c *fastcache.Cache, k []byte) {
	f := vmFCOf(c)
	if i := f.find(k); i >= 0 {
		f.keys = append(append([][]byte(nil), f.keys[:i]...), f.keys[i+1:]...)
		f.vals = append(append([][]byte(nil), f.vals[:i]...), f.vals[i+1:]...)
	}
}

// ---- content store model with a per-key "already stored" oracle --------------------------------

type vmStorage struct {
	stored [][]byte // keys that are present
	radius *uint256.Int
	gets   int
}

func (s *vmStorage) Get(k, id []byte) ([]byte, error) {
	s.gets++
	for _, x := range s.stored {
		if bytes.Equal(x, k) {
			return []byte{0xaa}, nil
		}
	}
	return nil, storage.ErrContentNotFound
}
func (s *vmStorage) Put(k, id, c []byte) error { s.stored = append(s.stored, k); return nil }
func (s *vmStorage) Radius() *uint256.Int      { return s.radius }
func (s *vmStorage) Close() error              { return nil }

// ---- offer / transfer environment ---------------------------------------------------------------

type vmOfferEnv struct {
	selfID       [32]byte
	cidSend      uint16
	acceptCalls  int
	acceptFails  bool
	readFails    bool
	stream       []byte
	dialFails    bool
	writeFails   bool
	written      []byte
	talkFails    bool
	talkResp     []byte
	talkRequests int
	// an offer admitted while the receive task of an earlier one is blocked in its next accept
	concurrentTaker  func() (Permit, bool)
	concurrentTook   bool
	concurrentPermit Permit
	concurrentOK     bool
}

var vmEnv *vmOfferEnv

//verif:group offerenv
//verif:use node tablestub enr fastcache
//verif:model (*github.com/zen-eth/shisui/portalwire.UtpTransportService).CidWithAddr = vmCidWithAddr
//verif:model (*github.com/zen-eth/shisui/portalwire.UtpTransportService).AcceptWithCid = vmAcceptWithCid
//verif:model (*github.com/zen-eth/shisui/portalwire.UtpTransportService).DialWithCid = vmDialWithCid
//verif:model (*github.com/zen-eth/utp-go.UtpStream).ReadToEOF = vmStreamReadToEOF
//verif:model (*github.com/zen-eth/utp-go.UtpStream).Write = vmStreamWrite
//verif:model (*github.com/ethereum/go-ethereum/p2p/discover.UDPv5).TalkRequest = vmTalkRequest
//verif:stub noop (*github.com/zen-eth/utp-go.UtpStream).Close
func vgOfferEnv() {}

var vmSelfNode = new(enode.Node)

func vmLocalNode(ln *enode.LocalNode) *enode.Node { return vmSelfNode }

func vmCidWithAddr(z *UtpTransportService, dst *enode.Node, addr *net.UDPAddr, isInitiator bool) *utp.ConnectionId {
	return &utp.ConnectionId{Send: vmEnv.cidSend, Recv: vmEnv.cidSend + 1}
}

// vmAcceptWithCid: the announced connection is taken up at most once.
func vmAcceptWithCid(z *UtpTransportService, ctx context.Context, cid *utp.ConnectionId) (*utp.UtpStream, error) {
	vmEnv.acceptCalls++
	if vmEnv.acceptCalls > 1 && vmEnv.concurrentTaker != nil && !vmEnv.concurrentTook {
		// while this task waits for a further connection, another offer is admitted
		vmEnv.concurrentTook = true
		vmEnv.concurrentPermit, vmEnv.concurrentOK = vmEnv.concurrentTaker()
	}
	if vmEnv.acceptCalls > 1 || vmEnv.acceptFails {
		return nil, vmErrLoad
	}
	return new(utp.UtpStream), nil
}

func vmDialWithCid(z *UtpTransportService, ctx context.Context, dest *enode.Node, connId uint16) (*utp.UtpStream, error) {
	if vmEnv.dialFails {
		return nil, vmErrLoad
	}
	return new(utp.UtpStream), nil
}

func vmStreamReadToEOF(s *utp.UtpStream, ctx context.Context, data *[]byte) (int, error) {
	if vmEnv.readFails {
		return 0, vmErrLoad
	}
	*data = vmEnv.stream
	return len(vmEnv.stream), nil
}

func vmStreamWrite(s *utp.UtpStream, ctx context.Context, b []byte) (int, error) {
	if vmEnv.writeFails {
		return 0, vmErrLoad
	}
	vmEnv.written = b
	return len(b), nil
}

func vmTalkRequest(t *discover.UDPv5, n *enode.Node, protocol string, req []byte) ([]byte, error) {
	vmEnv.talkRequests++
	if vmEnv.talkFails {
		return nil, vmErrLoad
	}
	return vmEnv.talkResp, nil
}

// vhOfferProto: a protocol instance wired to the models; limit = uTP slots per direction.
func vhOfferProto(limit int, versions protocolVersions, st *vmStorage) *PortalProtocol {
	vmEnv = &vmOfferEnv{}
	p := vhProto()
	p.currentVersions = versions
	p.storage = st
	p.localNode = new(enode.LocalNode)
	p.DiscV5 = new(discover.UDPv5)
	p.toContentId = func(k []byte) []byte {
		if len(k) == 0 {
			return nil
		}
		id := make([]byte, 32)
		copy(id, k)
		return id
	}
	p.Utp = &UtpTransportService{utpController: newUtpController(limit)}
	p.transferringKeyCache = new(fastcache.Cache)
	p.radiusCache = new(fastcache.Cache)
	p.offerQueue = make(chan *OfferRequestWithNode, 1)
	return p
}

// vhFreeSlots: how many permits can be taken now (and gives them back).
func vhFreeSlots(get func() (Permit, bool), limit int) int {
	var taken []Permit
	for i := 0; i <= limit; i++ {
		pm, ok := get()
		if !ok {
			break
		}
		taken = append(taken, pm)
	}
	for _, pm := range taken {
		pm.Release()
	}
	return len(taken)
}

func vhProto() *PortalProtocol {
	return &PortalProtocol{
		table:           &Table{},
		protocolName:    "verif",
		currentVersions: protocolVersions{0, 1},
		versionsCache:   vhVersionCache(),
		contentQueue:    make(chan *ContentElement, 1),
		closeCtx:        context.Background(),
	}
}

func vhOfferRequest(kind int, k int) *OfferRequest {
	keys := make([][]byte, k)
	entries := make([]*ContentEntry, k)
	for i := range keys {
		keys[i] = []byte{byte(i + 1)}
		entries[i] = &ContentEntry{ContentKey: keys[i], Content: []byte{byte(0x10 + i)}}
	}
	switch kind {
	case 0:
		return &OfferRequest{Kind: TransientOfferRequestKind, Request: &TransientOfferRequest{Contents: entries}}
	case 1:
		return &OfferRequest{Kind: PersistOfferRequestKind, Request: &PersistOfferRequest{ContentKeys: keys}}
	}
	return &OfferRequest{Kind: TransientOfferRequestWithResultKind, Request: &TransientOfferRequestWithResult{
		Content: &ContentEntry{ContentKey: []byte{1}, Content: []byte{0x10}}, Result: make(chan *OfferTrace, 1)}}
}

// ---- LogDist summary ----------------------------------------------------------------------------

// vmLogDist: fork-free form of enode.LogDist (256 - number of leading zero bits of a XOR b).
// C11.lemma_logdist proves it equal to the real function for all ids.
func vmLogDist(a, b enode.ID) int {
	r := 0
	for i := 31; i >= 0; i-- {
		if x := a[i] ^ b[i]; x != 0 {
			r = 8*(32-i) - bits.LeadingZeros8(x)
		}
	}
	return r
}

//verif:group logdist
//verif:model github.com/ethereum/go-ethereum/p2p/enode.LogDist = vmLogDist
func vgLogDist() {}

// ---- table contents and ENR encoding for the reply builders -----------------------------------

var (
	vhTableNodes []*enode.Node
	vhEnrBytes   = map[*enr.Record][]byte{}
)

func vmNodeList(tab *Table) []*enode.Node { return append([]*enode.Node(nil), vhTableNodes...) }

// vmEncodeRecord: the RLP of a record is an opaque byte string of the size chosen by the harness.
func vmEncodeRecord(val interface{}) ([]byte, error) {
	if r, ok := val.(*enr.Record); ok {
		if b, ok := vhEnrBytes[r]; ok {
			return b, nil
		}
	}
	return nil, vmErrLoad
}

//verif:group tablenodes
//verif:model (*github.com/zen-eth/shisui/portalwire.Table).nodeList = vmNodeList
//verif:model github.com/ethereum/go-ethereum/rlp.EncodeToBytes = vmEncodeRecord
func vgTableNodes() {}

// vhAddTableNode: a table node with symbolic id and an ENR whose size is one of {1, 300, 580}
// (shape enumeration: minimal, the spec maximum, and an oversize record that forces truncation
// with few nodes); contents symbolic except the first byte, which tags the node.
var vhEnrSizes = []int{1, 300, 580}

func vhAddTableNode(maxEnr int) *enode.Node {
	return vhAddTableNodeWithID(enode.ID(vsArr32("node-id")))
}

func vhAddTableNodeWithID(id enode.ID) *enode.Node {
	n := vhNodeWithID(0, []uint8{0, 1}, id)
	sz := vhEnrSizes[vsChoose("enr-size", len(vhEnrSizes))]
	b := vsBytesN("enr", sz)
	b[0] = byte(len(vhTableNodes) + 1)
	vhEnrBytes[n.Record()] = b
	vhTableNodes = append(vhTableNodes, n)
	return n
}

// vhAddTableNodeSymSize: like vhAddTableNodeWithID with a record of ANY size 1..maxSize (symbolic).
func vhAddTableNodeSymSize(id enode.ID, maxSize int) *enode.Node {
	n := vhNodeWithID(0, []uint8{0, 1}, id)
	sz := vsInt("enr-size")
	vsAssume(sz >= 1 && sz <= maxSize)
	b := vsBytesN("enr", sz)
	b[0] = byte(len(vhTableNodes) + 1)
	vhEnrBytes[n.Record()] = b
	vhTableNodes = append(vhTableNodes, n)
	return n
}

// vhNearID: an id that differs from ref only in its first two bytes (log-distance 0 or 241..256):
// keeps distance comparisons to 16 symbolic bits; the other byte positions are covered by the
// LogDist lemma.
func vhNearID(ref []byte) enode.ID {
	var id enode.ID
	copy(id[:], ref)
	id[0], id[1] = vsU8("id-b0"), vsU8("id-b1")
	return id
}

// ---- addresses, relay check, shuffle, transport --------------------------------------------------

func vmNodeIP(n *enode.Node) net.IP {
	g := vmNodes[n]
	if g == nil {
		vmNodeID(n)
		g = vmNodes[n]
	}
	if g.ip == nil {
		g.ip = make(net.IP, 4)
		g.relayOK = vsBool("relay-ok")
	}
	return g.ip
}

func vmNodeUDP(n *enode.Node) int {
	g := vmNodes[n]
	if g == nil {
		vmNodeID(n)
		g = vmNodes[n]
	}
	return g.udp
}

// vmCheckRelayIP: the verdict is a ghost attribute of the node the address belongs to.
func vmCheckRelayIP(sender, addr net.IP) error {
	for _, g := range vmNodesList {
		if len(g.ip) > 0 && len(addr) > 0 && &g.ip[0] == &addr[0] {
			if g.relayOK {
				return nil
			}
			return vmErrLoad
		}
	}
	return vmErrLoad
}

// vmNodesList mirrors vmNodes in creation order (map iteration order is not used by the models).
var vmNodesList []*vmNodeGhost

// vmShuffle: one arbitrary transposition (enough to show that order in the reply is not relied on).
func vmShuffle(r *reseedingRandom, n int, swap func(i, j int)) {
	if n >= 2 {
		swap(0, vsChoose("shuffle-j", n))
	}
}

type vmTransport struct{ self *enode.Node }

func (t *vmTransport) Self() *enode.Node                             { return t.self }
func (t *vmTransport) RequestENR(n *enode.Node) (*enode.Node, error) { return nil, vmErrLoad }
func (t *vmTransport) lookupRandom() []*enode.Node                   { return nil }
func (t *vmTransport) lookupSelf() []*enode.Node                     { return nil }
func (t *vmTransport) ping(n *enode.Node) (uint64, error)            { return 0, vmErrLoad }

//verif:group tableenv
//verif:use node logdist
//verif:model (*github.com/ethereum/go-ethereum/p2p/enode.Node).IP = vmNodeIP
//verif:model (*github.com/ethereum/go-ethereum/p2p/enode.Node).UDP = vmNodeUDP
//verif:model github.com/ethereum/go-ethereum/p2p/netutil.CheckRelayIP = vmCheckRelayIP
//verif:model (*github.com/zen-eth/shisui/portalwire.reseedingRandom).Shuffle = vmShuffle
//verif:model github.com/ethereum/go-ethereum/rlp.EncodeToBytes = vmEncodeRecord
func vgTableEnv() {}

// vhTable: an empty routing table around the given local node.
func vhTable(self *enode.Node) *Table {
	tab := &Table{net: &vmTransport{self: self}}
	for i := range tab.buckets {
		tab.buckets[i] = &bucket{index: i}
	}
	return tab
}
