//go:build verif

package portalwire

import (
	"bytes"

	"github.com/ethereum/go-ethereum/p2p/enode"
	"github.com/holiman/uint256"
)

func init() {
	vsRegister("C06.inrange", vhC06InRange)
}

// inRange(node, radius, content) <=> BE256(node XOR content) < radius, for all 256-bit triples.
//
//verif:harness C06.inrange unwind=40 native
func vhC06InRange() {
	node := vsArr32("node")
	radius := vsArr32("radius")
	content := vsArr32("content")
	r := new(uint256.Int).SetBytes32(radius[:])
	got := inRange(enode.ID(node), r, content[:])
	var d [32]byte
	for i := range d {
		d[i] = node[i] ^ content[i]
	}
	want := bytes.Compare(d[:], radius[:]) < 0
	vsAssert(got == want, "inrange-iff-xor-distance-below-radius")
	if want {
		vsCover("in-range")
	} else {
		vsCover("out-of-range")
	}
	if radius[31] < 200 && radius[30] == 0 && radius[0] == 0 {
		vsCover("small-radius")
	}
}
