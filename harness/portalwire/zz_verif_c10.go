//go:build verif

package portalwire

import (
	"context"

	"github.com/ethereum/go-ethereum/p2p/enode"
	"github.com/holiman/uint256"
)

func init() {
	vsRegister("C10.node_lookup", vhC10NodeLookup)
	vsRegister("C10.node_lookup_cancel", vhC10NodeLookupCancel)
	vsRegister("C10.node_lookup_repeats", vhC10NodeLookupRepeats)
	vsRegister("C10.alpha_bound", vhC10AlphaBound)
	vsRegister("C10.push_step", vhC10PushStep)
	vsRegister("C10.content_lookup", vhC10ContentLookup)
}

var vhInitial []*enode.Node

func vmFindnodeByID(tab *Table, target enode.ID, nresults int, preferLive bool) *nodesByDistance {
	r := &nodesByDistance{target: target}
	for _, n := range vhInitial {
		r.push(n, nresults)
	}
	return r
}

//verif:group lookupenv
//verif:use node tablestub
//verif:model (*github.com/zen-eth/shisui/portalwire.Table).findnodeByID = vmFindnodeByID
//verif:stub noop (*github.com/zen-eth/shisui/portalwire.lookup).slowdown
//verif:exec github.com/ethereum/go-ethereum/p2p/enode.DistCmp
func vgLookupEnv() {}

// vhLookupWorld: a pool of P peers (ids = target with two symbolic leading bytes, pairwise
// distinct, not the local id), the local node, and an arbitrary answer function: every query
// returns an error or a list of 0..A nodes drawn from pool + local node + nil.
type vhLookupWorld struct {
	target  enode.ID
	self    *enode.Node
	pool    []*enode.Node
	queried []int // how often each pool peer was asked
	selfAsk int
	seenAny []bool // peer appeared in the initial list or in some answer
	maxPend int
}

func vhMakeLookupWorld(p int) *vhLookupWorld {
	w := &vhLookupWorld{target: enode.ID(vsArr32("target"))}
	symbolicOrder := vsParam("SYMORDER") == 1
	mk := func(rank int) enode.ID {
		if symbolicOrder {
			return vhNearID(w.target[:]) // arbitrary relative distances
		}
		// a fixed distance order (peer i is the i-th closest); which peer knows which is arbitrary
		id := w.target
		id[0] ^= byte(rank)
		return id
	}
	w.self = vhNodeWithID(0, nil, mk(p+1))
	for i := 0; i < p; i++ {
		n := vhNodeWithID(0, nil, mk(i+1))
		vsAssume(n.ID() != w.self.ID())
		for _, o := range w.pool {
			vsAssume(o.ID() != n.ID())
		}
		w.pool = append(w.pool, n)
	}
	w.queried = make([]int, p)
	w.seenAny = make([]bool, p)
	return w
}

func (w *vhLookupWorld) index(n *enode.Node) int {
	for i, o := range w.pool {
		if o == n {
			return i
		}
	}
	return -1
}

// answer: the arbitrary (adversarial) reply of a peer.
func (w *vhLookupWorld) answer(a int) ([]*enode.Node, error) {
	if vsChoose("answer-kind", 2) == 0 {
		return nil, vmErrLoad // silent / failing peer
	}
	k := vsChoose("answer-len", a+1)
	var out []*enode.Node
	for i := 0; i < k; i++ {
		c := vsChoose("answer-node", len(w.pool)+2)
		switch {
		case c < len(w.pool):
			out = append(out, w.pool[c])
			w.seenAny[c] = true
		case c == len(w.pool):
			out = append(out, w.self) // "you yourself are close"
		default:
			out = append(out, nil)
		}
	}
	return out, nil
}

// Node lookup over a pool of P peers with arbitrary answers, any order in which outstanding
// queries complete and cancellation at any moment: it ends, asks each peer at most once, never the
// local node, never has more than 3 queries outstanding, and returns at most 16 distinct nodes
// sorted by XOR distance to the target that include every pool peer it has seen.
//
//verif:harness C10.node_lookup unwind=60 timeout=60 maxpaths=200000
//verif:use lookupenv
//verif:go pending
//verif:param P=4/5 A=1/1 SYMORDER=0/0
func vhC10NodeLookup() { vhC10NodeLookupBody() }

// The same with answers of up to two nodes (a peer can name the same node twice in one answer, and
// name a node that is known but not yet asked).
//
//verif:harness C10.node_lookup_repeats unwind=60 timeout=60 maxpaths=400000 wall=600/1200
//verif:use lookupenv
//verif:go pending
//verif:param P=2/3 A=2/2 SYMORDER=0/0
func vhC10NodeLookupRepeats() { vhC10NodeLookupBody() }

// The same with cancellation possible at every wait of the lookup loop, and with arbitrary
// relative distances between the peers (smaller pool).
//
//verif:harness C10.node_lookup_cancel unwind=60 timeout=60 maxpaths=400000 wall=600/1800
//verif:use lookupenv
//verif:go pending
//verif:ctx nondet
//verif:param P=2/3 A=1/1 SYMORDER=1/1
func vhC10NodeLookupCancel() { vhC10NodeLookupBody() }

// Five silent peers all known from the start: never more than three queries are outstanding, in
// every order in which they time out.
//
//verif:harness C10.alpha_bound unwind=60 timeout=60 maxpaths=200000
//verif:use lookupenv
//verif:go pending
//verif:param P=5/6 SYMORDER=0/0
func vhC10AlphaBound() {
	w := vhMakeLookupWorld(vsParam("P"))
	tab := vhTable(w.self)
	vhInitial = append([]*enode.Node(nil), w.pool...)
	asked := 0
	q := func(n *enode.Node) ([]*enode.Node, error) {
		asked++
		if pend := vsPendingTasks() + 1; pend > w.maxPend {
			w.maxPend = pend
		}
		return nil, vmErrLoad
	}
	it := newLookup(context.Background(), tab, w.target, q)
	it.run()
	vsAssert(w.maxPend <= alpha, "at-most-three-queries-in-flight")
	vsAssert(asked <= len(w.pool), "at-most-one-query-per-known-peer")
	if asked == len(w.pool) {
		vsCover("every-known-peer-asked")
	}
	vsCover("done")
}

func vhC10NodeLookupBody() {
	w := vhMakeLookupWorld(vsParam("P"))
	tab := vhTable(w.self)
	init := vsChoose("initial-nodes", 3)
	vhInitial = nil
	for i := 0; i < init && i < len(w.pool); i++ {
		vhInitial = append(vhInitial, w.pool[i])
		w.seenAny[i] = true
	}
	a := vsParam("A")
	cancelled := false
	q := func(n *enode.Node) ([]*enode.Node, error) {
		if n == w.self {
			w.selfAsk++
		}
		if i := w.index(n); i >= 0 {
			w.queried[i]++
		}
		if pend := vsPendingTasks() + 1; pend > w.maxPend {
			w.maxPend = pend
		}
		return w.answer(a)
	}
	ctx, cancelFn := context.WithCancel(context.Background())
	_, _ = cancelled, cancelFn
	it := newLookup(vhLookupCtx(ctx), tab, w.target, q)
	result := it.run()
	vsAssert(vsPendingTasks() == 0, "no-query-left-running")
	vsAssert(w.selfAsk == 0, "local-node-never-asked")
	total := 0
	for i := range w.pool {
		vsAssert(w.queried[i] <= 1, "no-peer-asked-twice")
		total += w.queried[i]
	}
	vsAssert(total <= len(w.pool), "at-most-one-query-per-peer")
	vsAssert(w.maxPend <= alpha, "at-most-three-queries-in-flight")
	vsAssert(len(result) <= bucketSize, "at-most-16-results")
	for i := range result {
		vsAssert(result[i] != nil, "no-nil-result")
		for j := 0; j < i; j++ {
			vsAssert(result[j].ID() != result[i].ID(), "results-distinct")
		}
		if i > 0 {
			vsAssert(enode.DistCmp(w.target, result[i-1].ID(), result[i].ID()) <= 0, "results-sorted-by-distance")
		}
	}
	if it.queryfunc != nil { // not cancelled: every seen peer is in the result (the pool is below 16)
		for i, n := range w.pool {
			if w.seenAny[i] && w.queried[i] >= 0 {
				found := false
				for _, r := range result {
					if r == n {
						found = true
					}
				}
				if w.vhReached(i) {
					vsAssert(found, "seen-peer-not-omitted")
				}
			}
		}
		vsCover("completed")
	} else {
		vsCover("cancelled")
	}
	if total == len(w.pool) && total > 0 {
		vsCover("every-peer-asked")
	}
}

// vhLookupCtx: the background context (whose Done channel is the nondeterministic one under
// //verif:ctx nondet) rather than the child.
func vhLookupCtx(child context.Context) context.Context { return context.Background() }

// vhReached: the peer was in the initial list or in the answer of a query that completed (answers
// are generated when the query runs, so every generated answer was delivered unless cancelled).
func (w *vhLookupWorld) vhReached(i int) bool { return w.seenAny[i] }

// One push into the distance-ordered result list from an arbitrary sorted list of 0..3 entries:
// the list stays sorted, distinct entries stay, the size bound holds and the closest are kept.
//
//verif:harness C10.push_step unwind=40
//verif:use lookupenv
func vhC10PushStep() {
	target := enode.ID(vsArr32("target"))
	h := &nodesByDistance{target: target}
	k := vsChoose("entries", 4)
	var pre []*enode.Node
	for i := 0; i < k; i++ {
		n := vhNodeWithID(0, nil, vhNearID(target[:]))
		if i > 0 {
			vsAssume(enode.DistCmp(target, pre[i-1].ID(), n.ID()) < 0) // sorted, distinct
		}
		pre = append(pre, n)
		h.entries = append(h.entries, n)
	}
	max := 1 + vsChoose("max", 3)
	vsAssume(k <= max)
	n := vhNodeWithID(0, nil, vhNearID(target[:]))
	h.push(n, max)
	vsAssert(len(h.entries) <= max, "size-bound")
	vsAssert(len(h.entries) >= k, "nothing-lost-below-the-bound")
	for i := 1; i < len(h.entries); i++ {
		vsAssert(enode.DistCmp(target, h.entries[i-1].ID(), h.entries[i].ID()) <= 0, "stays-sorted")
	}
	// the new node is kept unless it is farther than all kept ones and the list was full
	kept := false
	for _, e := range h.entries {
		if e == n {
			kept = true
		}
	}
	if !kept {
		vsAssert(k == max, "dropped-only-when-full")
		for _, e := range h.entries {
			vsAssert(enode.DistCmp(target, e.ID(), n.ID()) <= 0, "dropped-only-if-farthest")
		}
		vsCover("dropped")
	} else {
		vsCover("kept")
	}
	// an old entry is dropped only if it was the farthest and the list was full
	for i, e := range pre {
		present := false
		for _, x := range h.entries {
			if x == e {
				present = true
			}
		}
		if !present {
			vsAssert(k == max && i == k-1, "only-the-farthest-old-entry-can-go")
		}
	}
}

type vmContentPeerStore struct{}

// Content lookup: the bytes some queried peer supplied are returned if any peer supplied content,
// not-found otherwise; the lookup ends and no peer is asked twice.
//
//verif:harness C10.content_lookup unwind=60 timeout=60 maxpaths=200000
//verif:use lookupenv
//verif:go pending
//verif:go after ContentLookup$1
//verif:model (*github.com/zen-eth/shisui/portalwire.PortalProtocol).findContent = vmFindContent
//verif:param P=3/3 SYMORDER=0/0
func vhC10ContentLookup() {
	w := vhMakeLookupWorld(vsParam("P"))
	vhLookupW = w
	vhContentHolders = make([]bool, len(w.pool))
	for i := range vhContentHolders {
		vhContentHolders[i] = vsBool("peer-has-content")
	}
	vhContentBytes = vsBytesN("content", 2)
	init := 1 + vsChoose("initial-nodes", 2)
	vhInitial = nil
	for i := 0; i < init; i++ {
		vhInitial = append(vhInitial, w.pool[i])
	}
	p := vhProto()
	p.table = vhTable(w.self)
	p.storage = &vmStorage{radius: uint256.NewInt(0)}
	got, _, err := p.ContentLookup([]byte{1}, w.target[:])
	anyAskedHolder := false
	for i := range w.pool {
		vsAssert(w.queried[i] <= 1, "no-peer-asked-twice")
		if w.queried[i] == 1 && vhContentHolders[i] {
			anyAskedHolder = true
		}
	}
	if anyAskedHolder {
		vsAssert(err == nil, "content-returned-when-a-queried-peer-supplied-it")
		vsAssertBytesEq(got, vhContentBytes, "returned-bytes-are-the-supplied-ones")
		vsCover("found")
	} else {
		vsAssert(err == ErrContentNotFound, "not-found-when-no-queried-peer-had-it")
		vsCover("not-found")
	}
}

var (
	vhLookupW        *vhLookupWorld
	vhContentHolders []bool
	vhContentBytes   []byte
)

// vmFindContent: a peer either supplies the content or answers with closer nodes / fails.
func vmFindContent(p *PortalProtocol, n *enode.Node, contentKey []byte) (byte, interface{}, error) {
	w := vhLookupW
	i := w.index(n)
	if i >= 0 {
		w.queried[i]++
		if vhContentHolders[i] {
			return ContentRawSelector, vhContentBytes, nil
		}
	}
	nodes, err := w.answer(1)
	if err != nil {
		return 0xff, nil, err
	}
	var clean []*enode.Node
	for _, x := range nodes {
		if x != nil {
			clean = append(clean, x)
		}
	}
	return ContentEnrsSelector, clean, nil
}
