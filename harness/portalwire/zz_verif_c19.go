//go:build verif

package portalwire

import (
	"github.com/VictoriaMetrics/fastcache"
	"github.com/ethereum/go-ethereum/p2p/enode"
	bitfield "github.com/OffchainLabs/go-bitfield"
)

func init() {
	vsRegister("C19.framing_by_version", vhC19FramingByVersion)
	vsRegister("C19.v0_accept_as_codes", vhC19V0AcceptAsCodes)
	vsRegister("C19.max_common", vhC19MaxCommon)
	vsRegister("C19.negotiate", vhC19Negotiate)
}

// vhSpecMaxCommon: reference model, max(A ∩ B).
func vhSpecMaxCommon(a, b []uint8) (uint8, bool) {
	found := false
	var best uint8
	for _, x := range a {
		for _, y := range b {
			if x == y {
				if !found || x > best {
					best = x
				}
				found = true
			}
		}
	}
	return best, found
}

// findBiggestSameNumber == max(A ∩ B), symmetric, error iff the intersection is empty.
//
//verif:harness C19.max_common unwind=60 native
//verif:param K=3/5
func vhC19MaxCommon() {
	la := vsChoose("la", vsParam("K")+1)
	lb := vsChoose("lb", vsParam("K")+1)
	a := vsBytesN("a", la)
	b := vsBytesN("b", lb)
	got, err := findBiggestSameNumber(a, b)
	want, found := vhSpecMaxCommon(a, b)
	vsAssert((err == nil) == found, "error-iff-no-common")
	if found {
		vsAssert(got == want, "is-max-of-intersection")
		vsCover("common-found")
	} else {
		vsCover("no-common")
	}
	got2, err2 := findBiggestSameNumber(b, a)
	vsAssert((err2 == nil) == (err == nil), "symmetric-error")
	if err == nil {
		vsAssert(got2 == got, "symmetric-value")
	}
}

// getOrStoreHighestVersion: highest common version; own base version when the peer advertises
// none; an error when there is no common version - and the error is not forgotten by the cache.
//
//verif:harness C19.negotiate unwind=60 native
//verif:use enr
//verif:param K=2/4
func vhC19Negotiate() {
	la := 1 + vsChoose("la", vsParam("K"))
	lb := 1 + vsChoose("lb", vsParam("K"))
	ours := vsBytesN("ours", la)
	theirs := vsBytesN("theirs", lb)
	outcome := vsChoose("load", 3)
	p := &PortalProtocol{currentVersions: protocolVersions(ours), versionsCache: vhVersionCache()}
	n := vhNode(outcome, theirs)

	v, err := p.getOrStoreHighestVersion(n)
	switch outcome {
	case 1: // peer advertises no versions: our first-listed (base) version
		vsAssert(err == nil && v == ours[0], "absent-key-gives-base-version")
		vsCover("absent")
	case 2:
		vsAssert(err != nil, "malformed-entry-is-error")
		vsCover("malformed")
	default:
		want, found := vhSpecMaxCommon(ours, theirs)
		vsAssert((err == nil) == found, "error-iff-no-common")
		if found {
			vsAssert(v == want, "highest-common")
			vsCover("negotiated")
		} else {
			vsCover("no-common")
		}
	}
	// The second call (what a transfer started later would see) must agree with the first.
	v2, err2 := p.getOrStoreHighestVersion(n)
	if err != nil {
		if outcome == 0 {
			// Region of known finding KF-C19-1 (pinned by TestGetOrStoreHighestVersion): "no common
			// version" is cached as version 0, so the second call reports success.
			vsAssert(err2 != nil, "error-not-forgotten-by-cache/no-common-version")
		} else {
			vsAssert(err2 != nil, "error-not-forgotten-by-cache")
		}
	} else {
		vsAssert(err2 == nil && v2 == v, "cached-value-stable")
	}
}

var (
	vhNegVersion uint8
	vhNegFails   bool
)

func vmNegotiated(p *PortalProtocol, n *enode.Node) (uint8, error) {
	if vhNegFails {
		return 0, vmErrLoad
	}
	return vhNegVersion, nil
}

// uTP content framing follows the negotiated version on both sides: for ANY negotiated version
// (0..255) what one side frames the other - having negotiated the same version - unframes to the
// same bytes; version 1 frames with the length prefix, the others send the bytes as they are; no
// common version means no transfer on either side.
//
//verif:harness C19.framing_by_version unwind=12
//verif:model (*github.com/zen-eth/shisui/portalwire.PortalProtocol).getOrStoreHighestVersion = vmNegotiated
//verif:param L=200/400
func vhC19FramingByVersion() {
	vhNegVersion, vhNegFails = vsU8("negotiated-version"), vsBool("no-common-version")
	n := vsInt("len")
	vsAssume(n >= 0 && n <= vsParam("L"))
	data := vsBytesN("data", n)
	p := &PortalProtocol{}
	peer := new(enode.Node)
	framed, err := p.encodeUtpContent(peer, data)
	if vhNegFails {
		vsAssert(err != nil, "no-common-version-no-framing")
		_, derr := p.decodeUtpContent(peer, data)
		vsAssert(derr != nil, "no-common-version-no-unframing")
		vsCover("no-common-version")
		return
	}
	vsAssert(err == nil, "framed")
	if vhNegVersion == 1 {
		vsAssertBytesEq(framed, encodeSingleContent(data), "version-1-frames-with-length-prefix")
		vsCover("version-1")
	} else {
		vsAssertBytesEq(framed, data, "other-versions-send-the-bytes-as-they-are")
	}
	back, derr := p.decodeUtpContent(peer, framed)
	vsAssert(derr == nil, "unframed")
	vsAssertBytesEq(back, data, "unframing-returns-the-bytes-framed")
}

// handleV0Offer (the API's view of a version-0 ACCEPT): when this node also speaks version 1 the
// bit list becomes one code per offered key, in order - accepted for a set bit, declined for a
// clear one; otherwise the bit list is passed through.
//
//verif:harness C19.v0_accept_as_codes unwind=80
func vhC19V0AcceptAsCodes() {
	k := vsChoose("keys", 10)
	bits := bitfield.NewBitlist(uint64(k))
	want := make([]bool, k)
	for i := 0; i < k; i++ {
		want[i] = vsBool("accepted")
		if want[i] {
			bits.SetBitAt(uint64(i), true)
		}
	}
	speaksV1 := vsBool("speaks-v1")
	p := &PortalProtocol{currentVersions: protocolVersions{0}}
	if speaksV1 {
		p.currentVersions = protocolVersions{0, 1}
	}
	out := p.handleV0Offer(bits)
	if !speaksV1 {
		vsAssertBytesEq(out, bits, "passed-through-when-only-version-0")
		return
	}
	vsAssert(len(out) == k, "one-code-per-key")
	for i := 0; i < k; i++ {
		if want[i] {
			vsAssert(out[i] == byte(Accepted), "set-bit-is-accepted")
		} else {
			vsAssert(out[i] == byte(GenericDeclined), "clear-bit-is-declined")
		}
	}
	vsCover("converted")
}

// NewPortalProtocol -> getOrStoreHighestVersion: the version list a node was configured with
// (its own record's "pv" entry) is the list it negotiates with - same elements, same first-listed
// (base) version - so a peer that advertises nothing gets the FIRST-LISTED version of that record,
// whatever the order of the list.
//
//verif:harness C19.constructed_base_version unwind=40
//verif:use node enr fastcache ctor
//verif:param K=3/4
func vhC19ConstructedBaseVersion() {
	la := 1 + vsChoose("la", vsParam("K"))
	ours := vsBytesN("ours", la)
	first := ours[0]
	self := vhNodeWithID(0, ours, enode.ID(vsArr32("self-id")))
	vmSelfNode = self
	cfg := DefaultPortalProtocolConfig()
	p, err := NewPortalProtocol(cfg, History, nil, nil, new(enode.LocalNode), nil, nil, nil, nil, vhVersionCache())
	vsAssert(err == nil && p != nil, "constructed")
	peer := vhNodeWithID(1, nil, enode.ID(vsArr32("peer-id")))
	v, verr := p.getOrStoreHighestVersion(peer)
	vsAssert(verr == nil && v == first, "absent-key-gives-first-listed-version-of-own-record")
	vsCover("constructed-and-negotiated")
}

// Constructor environment: caches are fresh empty objects (the fastcache model keys on identity).
//
//verif:group ctor
//verif:model github.com/VictoriaMetrics/fastcache.New = vmFCNew
func vgCtor() {}

func vmFCNew(maxBytes int) *fastcache.Cache { return new(fastcache.Cache) }
