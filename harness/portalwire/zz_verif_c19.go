//go:build verif

package portalwire

func init() {
	vsRegister("C19.max_common", vhC19MaxCommon)
	vsRegister("C19.negotiate", vhC19Negotiate)
}

// vhSpecMaxCommon: reference model, max(A ∩ B).
func vhSpecMaxCommon(a, b []uint8) (uint8, bool) {
	found := false
	var best uint8
	for _, x := range a {
		for _, y := range b {
			if x == y {
				if !found || x > best {
					best = x
				}
				found = true
			}
		}
	}
	return best, found
}

// findBiggestSameNumber == max(A ∩ B), symmetric, error iff the intersection is empty.
//
//verif:harness C19.max_common unwind=12 native
//verif:param K=3/5
func vhC19MaxCommon() {
	la := vsChoose("la", vsParam("K")+1)
	lb := vsChoose("lb", vsParam("K")+1)
	a := vsBytesN("a", la)
	b := vsBytesN("b", lb)
	got, err := findBiggestSameNumber(a, b)
	want, found := vhSpecMaxCommon(a, b)
	vsAssert((err == nil) == found, "error-iff-no-common")
	if found {
		vsAssert(got == want, "is-max-of-intersection")
		vsCover("common-found")
	} else {
		vsCover("no-common")
	}
	got2, err2 := findBiggestSameNumber(b, a)
	vsAssert((err2 == nil) == (err == nil), "symmetric-error")
	if err == nil {
		vsAssert(got2 == got, "symmetric-value")
	}
}

// getOrStoreHighestVersion: highest common version; own base version when the peer advertises
// none; an error when there is no common version - and the error is not forgotten by the cache.
//
//verif:harness C19.negotiate unwind=12 native
//verif:use enr
//verif:param K=2/4
func vhC19Negotiate() {
	la := 1 + vsChoose("la", vsParam("K"))
	lb := 1 + vsChoose("lb", vsParam("K"))
	ours := vsBytesN("ours", la)
	theirs := vsBytesN("theirs", lb)
	outcome := vsChoose("load", 3)
	p := &PortalProtocol{currentVersions: protocolVersions(ours), versionsCache: vhVersionCache()}
	n := vhNode(outcome, theirs)

	v, err := p.getOrStoreHighestVersion(n)
	switch outcome {
	case 1: // peer advertises no versions: our first-listed (base) version
		vsAssert(err == nil && v == ours[0], "absent-key-gives-base-version")
		vsCover("absent")
	case 2:
		vsAssert(err != nil, "malformed-entry-is-error")
		vsCover("malformed")
	default:
		want, found := vhSpecMaxCommon(ours, theirs)
		vsAssert((err == nil) == found, "error-iff-no-common")
		if found {
			vsAssert(v == want, "highest-common")
			vsCover("negotiated")
		} else {
			vsCover("no-common")
		}
	}
	// The second call (what a transfer started later would see) must agree with the first.
	v2, err2 := p.getOrStoreHighestVersion(n)
	if err != nil {
		if outcome == 0 {
			// Region of known finding KF-C19-1 (pinned by TestGetOrStoreHighestVersion): "no common
			// version" is cached as version 0, so the second call reports success.
			vsAssert(err2 != nil, "error-not-forgotten-by-cache/no-common-version")
		} else {
			vsAssert(err2 != nil, "error-not-forgotten-by-cache")
		}
	} else {
		vsAssert(err2 == nil && v2 == v, "cached-value-stable")
	}
}
