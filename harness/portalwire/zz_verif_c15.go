//go:build verif

package portalwire

func init() {
	vsRegister("C15.single_roundtrip", vhC15SingleRoundtrip)
	vsRegister("C15.single_decode_total", vhC15SingleDecodeTotal)
}

// Single item: decode(encode(data)) == (data, nothing left) for every length up to 2^32-1.
//
//verif:harness C15.single_roundtrip unwind=8 native
func vhC15SingleRoundtrip() {
	n := vsInt("n")
	vsAssume(n >= 0 && n <= 1<<32-1)
	data := vsBytesN("data", n)
	enc := encodeSingleContent(data)
	c, rest, err := decodeSingleContent(enc)
	vsAssert(err == nil, "decodes")
	vsAssert(len(rest) == 0, "no-remainder")
	vsAssertBytesEq(c, data, "content-intact")
	if n >= 1<<28 {
		vsCover("five-byte-prefix")
	}
	if n == 127 {
		vsCover("n127")
	}
	if n == 128 {
		vsCover("n128")
	}
	if n == 0 {
		vsCover("empty")
	}
}

// Decoder totality on arbitrary input: error, or a split that covers the input exactly.
//
//verif:harness C15.single_decode_total unwind=8 native
//verif:param L=16/48
func vhC15SingleDecodeTotal() {
	in := vsBytes("in", vsParam("L"))
	c, rest, err := decodeSingleContent(in)
	if err != nil {
		vsAssert(c == nil, "error-no-content")
		vsAssert(len(rest) == len(in), "error-keeps-input")
		vsCover("rejects")
		return
	}
	vsCover("accepts")
	// the split tiles the input: header + content + rest
	vsAssert(len(c)+len(rest) <= len(in), "split-within-input")
	hdr := len(in) - len(c) - len(rest)
	vsAssert(hdr >= 1 && hdr <= 5, "header-1-to-5")
	vsAssertBytesEq(c, in[hdr:hdr+len(c)], "content-is-window")
	vsAssertBytesEq(rest, in[hdr+len(c):], "rest-is-tail")
}

func init() {
	vsRegister("C15.list_roundtrip", vhC15ListRoundtrip)
	vsRegister("C15.list_decode_total", vhC15ListDecodeTotal)
	vsRegister("C15.reject_malformed", vhC15RejectMalformed)
	vsRegister("C15.utp_content", vhC15UtpContent)
	vsRegister("C15.list_roundtrip_symlen", vhC15ListRoundtripSymLen)
	vsRegister("C15.prefix_lemma", vhC15PrefixLemma)
	vsRegister("C15.decode_step_inductive", vhC15DecodeStepInductive)
}

// vhC15Lens: the item lengths enumerated by the list harness (around the 1/2-byte varint boundary).
var vhC15Lens = []int{0, 1, 127, 128, 3}

// decodeContents(encodeContents(items)) == items for lists of 0..K items with symbolic contents;
// item lengths are enumerated from {0,1,127,128,3} (shape enumeration). Arbitrary lengths and
// arbitrary list sizes follow from C15.prefix_lemma by induction over the decode loop.
//
//verif:harness C15.list_roundtrip unwind=12 native
//verif:param K=3/4
func vhC15ListRoundtrip() {
	k := vsChoose("k", vsParam("K")+1)
	items := make([][]byte, k)
	for i := range items {
		items[i] = vsBytesN("item", vhC15Lens[vsChoose("len", len(vhC15Lens))])
	}
	enc := encodeContents(items)
	dec, err := decodeContents(enc)
	vsAssert(err == nil, "decodes")
	vsAssert(len(dec) == k, "same-count")
	for i := range items {
		vsAssertBytesEq(dec[i], items[i], "item-intact")
	}
	if k == vsParam("K") {
		vsCover("max-items")
	}
	if k == 0 {
		vsCover("empty-list")
	}
}

// Same law with fully symbolic item lengths (0..2^21) for two items.
//
//verif:harness C15.list_roundtrip_symlen unwind=12 native tier=thorough timeout=300
func vhC15ListRoundtripSymLen() {
	items := make([][]byte, 2)
	for i := range items {
		n := vsInt("n")
		vsAssume(n >= 0)
		vsAssume(n <= 1<<21)
		items[i] = vsBytesN("item", n)
	}
	enc := encodeContents(items)
	dec, err := decodeContents(enc)
	vsAssert(err == nil, "decodes")
	vsAssert(len(dec) == 2, "same-count")
	for i := range items {
		vsAssertBytesEq(dec[i], items[i], "item-intact")
	}
	vsCover("two-items")
}

// Prefix lemma (inductive step of the list law): for ANY data (length up to 2^32-1) and ANY
// following bytes, decodeSingleContent(encodeSingleContent(data) ++ rest) == (data, rest).
//
//verif:harness C15.prefix_lemma unwind=8 native
func vhC15PrefixLemma() {
	n := vsInt("n")
	m := vsInt("m")
	vsAssume(n >= 0 && n <= 1<<32-1)
	vsAssume(m >= 0 && m <= 1<<32)
	data := vsBytesN("data", n)
	rest := vsBytesN("rest", m)
	s := append(encodeSingleContent(data), rest...)
	c, r, err := decodeSingleContent(s)
	vsAssert(err == nil, "decodes")
	vsAssertBytesEq(c, data, "content-intact")
	vsAssertBytesEq(r, rest, "rest-intact")
	if m > 0 && n >= 1<<28 {
		vsCover("five-byte-prefix-with-rest")
	}
	if m == 0 {
		vsCover("no-rest")
	}
}

// Decode step on an input of ANY length: error (input handed back), or a split that tiles the
// input after a 1..5 byte header and makes progress (so the decode loop terminates).
//
//verif:harness C15.decode_step_inductive unwind=8 native
func vhC15DecodeStepInductive() {
	n := vsInt("n")
	vsAssume(n >= 0 && n <= 1<<33)
	in := vsBytesN("in", n)
	c, rest, err := decodeSingleContent(in)
	if err != nil {
		vsAssert(c == nil && len(rest) == len(in), "error-keeps-input")
		vsCover("rejects")
		return
	}
	vsAssert(len(rest) < len(in), "progress")
	hdr := len(in) - len(c) - len(rest)
	vsAssert(hdr >= 1 && hdr <= 5, "header-1-to-5")
	vsAssert(cap(in)-cap(c) == hdr, "content-starts-after-header")
	vsAssert(cap(in)-cap(rest) == hdr+len(c), "rest-starts-after-content")
	if len(c) >= 1<<28 {
		vsCover("huge-item")
	}
	vsCover("accepts")
}

// decodeContents on arbitrary input: error, or items that tile the input in order, each
// preceded by a 1..5 byte prefix, nothing left over.
//
//verif:harness C15.list_decode_total unwind=60 native
//verif:param L=6/9
func vhC15ListDecodeTotal() {
	in := vsBytes("in", vsParam("L"))
	items, err := decodeContents(in)
	if err != nil {
		vsAssert(items == nil, "error-no-items")
		vsCover("rejects")
		return
	}
	end := 0
	for _, c := range items {
		off := cap(in) - cap(c) // start of c inside in (sub-slices share the capacity end)
		vsAssert(off >= end+1 && off <= end+5, "prefix-1-to-5-bytes")
		vsAssert(off+len(c) <= len(in), "item-inside-input")
		end = off + len(c)
	}
	vsAssert(end == len(in), "items-tile-the-input")
	if len(items) >= 2 {
		vsCover("two-or-more-items")
	}
}

// The three rejection clauses of the property, each on its own.
//
//verif:harness C15.reject_malformed unwind=8 native
func vhC15RejectMalformed() {
	switch vsChoose("case", 3) {
	case 0: // length prefix exceeds the remaining bytes
		n := vsU32("n")
		have := vsInt("have")
		vsAssume(have >= 0 && have < int(n))
		vsAssume(have <= 1<<20)
		stream := append(encodeSingleContent(nil)[:0], encodeSingleContent(vsBytesN("x", 0))...)
		_ = stream
		prefix := vhLeb(n)
		body := vsBytesN("body", have)
		s := append(prefix, body...)
		_, _, err := decodeSingleContent(s)
		vsAssert(err != nil, "prefix-beyond-remaining-rejected")
		_, err = decodeContents(s)
		vsAssert(err != nil, "list-prefix-beyond-remaining-rejected")
		vsCover("short-body")
	case 1: // varint that overflows 32 bits: five continuation bytes, or a fifth byte above 0x0f
		b := vsBytesN("b", 6)
		vsAssume(b[0] >= 0x80 && b[1] >= 0x80 && b[2] >= 0x80 && b[3] >= 0x80)
		vsAssume(b[4] >= 0x10)
		_, _, err := decodeSingleContent(b)
		vsAssert(err != nil, "varint-overflow-rejected")
		_, err = decodeContents(b)
		vsAssert(err != nil, "list-varint-overflow-rejected")
		vsCover("overflow")
	case 2: // truncated inside the prefix
		n := 1 + vsChoose("n", 4)
		b := vsBytesN("t", n)
		for i := 0; i < n; i++ {
			vsAssume(b[i] >= 0x80)
		}
		_, _, err := decodeSingleContent(b)
		vsAssert(err != nil, "truncated-prefix-rejected")
		vsCover("truncated")
	}
}

func vhLeb(v uint32) []byte {
	var out []byte
	for {
		b := byte(v & 0x7f)
		v >>= 7
		if v != 0 {
			out = append(out, b|0x80)
		} else {
			return append(out, b)
		}
	}
}

// decodeUtpContent (version 1): accepted iff the prefix covers exactly the remaining bytes;
// version 0: identity. encodeUtpContent/decodeUtpContent are inverse for both versions.
//
//verif:harness C15.utp_content unwind=12 native
//verif:use enr
//verif:param L=16/48
func vhC15UtpContent() {
	ver := uint8(vsChoose("ver", 2))
	p := &PortalProtocol{currentVersions: protocolVersions{ver}, versionsCache: vhVersionCache()}
	n := vhNode(0, []uint8{ver})
	if vsChoose("dir", 2) == 0 {
		in := vsBytes("in", vsParam("L"))
		out, err := p.decodeUtpContent(n, in)
		if ver == 0 {
			vsAssert(err == nil, "v0-accepts")
			vsAssertBytesEq(out, in, "v0-identity")
			vsCover("v0")
			return
		}
		c, rest, derr := decodeSingleContent(in)
		exact := derr == nil && len(rest) == 0
		vsAssert((err == nil) == exact, "v1-accepts-iff-prefix-covers-exactly-the-rest")
		if err == nil {
			vsAssertBytesEq(out, c, "v1-content")
			vsCover("v1-accept")
		} else {
			vsCover("v1-reject")
		}
		return
	}
	ln := vsInt("ln")
	vsAssume(ln >= 0 && ln <= 1<<21)
	data := vsBytesN("data", ln)
	enc, err := p.encodeUtpContent(n, data)
	vsAssert(err == nil, "encode-ok")
	dec, err := p.decodeUtpContent(n, enc)
	vsAssert(err == nil, "roundtrip-decodes")
	vsAssertBytesEq(dec, data, "roundtrip-intact")
	vsCover("roundtrip")
}
