//go:build verif

package portalwire

func init() {
	vsRegister("C15.single_roundtrip", vhC15SingleRoundtrip)
	vsRegister("C15.single_decode_total", vhC15SingleDecodeTotal)
}

// Single item: decode(encode(data)) == (data, nothing left) for every length up to 2^32-1.
//
//verif:harness C15.single_roundtrip unwind=8 native
func vhC15SingleRoundtrip() {
	n := vsInt("n")
	vsAssume(n >= 0 && n <= 1<<32-1)
	data := vsBytesN("data", n)
	enc := encodeSingleContent(data)
	c, rest, err := decodeSingleContent(enc)
	vsAssert(err == nil, "decodes")
	vsAssert(len(rest) == 0, "no-remainder")
	vsAssertBytesEq(c, data, "content-intact")
	if n >= 1<<28 {
		vsCover("five-byte-prefix")
	}
	if n == 127 {
		vsCover("n127")
	}
	if n == 128 {
		vsCover("n128")
	}
	if n == 0 {
		vsCover("empty")
	}
}

// Decoder totality on arbitrary input: error, or a split that covers the input exactly.
//
//verif:harness C15.single_decode_total unwind=8 native
//verif:param L=16/48
func vhC15SingleDecodeTotal() {
	in := vsBytes("in", vsParam("L"))
	c, rest, err := decodeSingleContent(in)
	if err != nil {
		vsAssert(c == nil, "error-no-content")
		vsAssert(len(rest) == len(in), "error-keeps-input")
		vsCover("rejects")
		return
	}
	vsCover("accepts")
	// the split tiles the input: header + content + rest
	vsAssert(len(c)+len(rest) <= len(in), "split-within-input")
	hdr := len(in) - len(c) - len(rest)
	vsAssert(hdr >= 1 && hdr <= 5, "header-1-to-5")
	vsAssertBytesEq(c, in[hdr:hdr+len(c)], "content-is-window")
	vsAssertBytesEq(rest, in[hdr+len(c):], "rest-is-tail")
}
