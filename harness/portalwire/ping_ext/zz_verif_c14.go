//go:build verif

package pingext

import (
	"github.com/protolambda/zrnt/eth2/beacon/common"
	"github.com/protolambda/ztyp/view"
)

func init() {
	vsRegister("C14.pingext_value", vhC14PingExtValue)
	vsRegister("C14.pingext_canonical", vhC14PingExtCanonical)
}

type vhCodec interface {
	MarshalSSZ() ([]byte, error)
	UnmarshalSSZ([]byte) error
}

// Ping-extension payloads (real ztyp codec): value -> bytes -> value for in-limit values; a client
// info above 200 bytes, more than 400 capabilities or an error message above 300 bytes either fails
// to encode or is rejected by the decoder.
//
//verif:harness C14.pingext_value unwind=40
//verif:exec github.com/protolambda/ztyp/codec github.com/protolambda/ztyp/view github.com/protolambda/zrnt/eth2/beacon/common bytes
func vhC14PingExtValue() {
	radius := common.Root(vsArr32("radius"))
	switch vsChoose("type", 4) {
	case 0:
		k := []int{0, 1, 2, 400, 401}[vsChoose("capabilities", 5)]
		n := 3
		if k <= 1 { // symbolic client-info length (beyond its limit) with few capabilities
			n = vsInt("client-info-len")
			vsAssume(n >= 0 && n <= 210)
		}
		caps := make(CapabilitiesPayload, k)
		for i := range caps {
			if i < 3 {
				caps[i] = view.Uint16View(vsU16("cap"))
			}
		}
		v := ClientInfoAndCapabilitiesPayload{ClientInfo: ClientInfoBytes(vsBytesN("client-info", n)), DataRadius: radius, Capabilities: caps}
		enc, err := v.MarshalSSZ()
		var d ClientInfoAndCapabilitiesPayload
		if n > MaxClientInfoByteLength || k > MaxCapabilitiesLength {
			if err == nil {
				vsAssert(d.UnmarshalSSZ(enc) != nil, "client-info-over-limit-rejected")
			}
			vsCover("client-info-over-limit")
			return
		}
		vsAssert(err == nil, "client-info-encodes")
		vsAssert(d.UnmarshalSSZ(enc) == nil, "client-info-decodes")
		vsAssert(d.DataRadius == radius, "client-info-radius")
		vsAssertBytesEq(d.ClientInfo, v.ClientInfo, "client-info-bytes")
		vsAssert(len(d.Capabilities) == k, "client-info-capability-count")
		for i := 0; i < k && i < 3; i++ {
			vsAssert(d.Capabilities[i] == caps[i], "client-info-capability")
		}
		if n == MaxClientInfoByteLength {
			vsCover("client-info-at-limit")
		}
	case 1:
		v := BasicRadiusPayload{DataRadius: radius}
		enc, err := v.MarshalSSZ()
		var d BasicRadiusPayload
		vsAssert(err == nil && len(enc) == 32, "basic-encodes-to-32-bytes")
		vsAssert(d.UnmarshalSSZ(enc) == nil && d.DataRadius == radius, "basic-round-trip")
		vsAssert(d.UnmarshalSSZ(enc[:31]) != nil, "basic-short-rejected")
		vsCover("basic")
	case 2:
		cnt := view.Uint16View(vsU16("count"))
		v := HistoryRadiusPayload{DataRadius: radius, EphemeralHeaderCount: cnt}
		enc, err := v.MarshalSSZ()
		var d HistoryRadiusPayload
		vsAssert(err == nil && len(enc) == 34, "history-encodes-to-34-bytes")
		vsAssert(d.UnmarshalSSZ(enc) == nil && d.DataRadius == radius && d.EphemeralHeaderCount == cnt, "history-round-trip")
		vsCover("history")
	default:
		n := vsInt("message-len")
		vsAssume(n >= 0 && n <= 310)
		v := ErrorPayload{ErrorCode: view.Uint16View(vsU16("code")), Message: ErrMessage(vsBytesN("message", n))}
		enc, err := v.MarshalSSZ()
		var d ErrorPayload
		if n > MaxErrorByteLength {
			if err == nil {
				vsAssert(d.UnmarshalSSZ(enc) != nil, "error-over-limit-rejected")
			}
			vsCover("error-over-limit")
			return
		}
		vsAssert(err == nil, "error-encodes")
		vsAssert(d.UnmarshalSSZ(enc) == nil && d.ErrorCode == v.ErrorCode, "error-decodes")
		vsAssertBytesEq(d.Message, v.Message, "error-message")
	}
}

// Canonical decoding of the payloads: any accepted byte string of 0..L bytes re-encodes to itself.
//
//verif:harness C14.pingext_canonical unwind=60
//verif:exec github.com/protolambda/ztyp/codec github.com/protolambda/ztyp/view github.com/protolambda/zrnt/eth2/beacon/common bytes
//verif:param L=44/60
func vhC14PingExtCanonical() {
	b := vsBytes("b", vsParam("L"))
	var m vhCodec
	switch vsChoose("type", 4) {
	case 0:
		m = &vhClientInfo{}
	case 1:
		m = &vhBasic{}
	case 2:
		m = &vhHistory{}
	default:
		m = &vhError{}
	}
	if m.UnmarshalSSZ(b) != nil {
		vsCover("rejects")
		return
	}
	enc, err := m.MarshalSSZ()
	vsAssert(err == nil, "decoded-value-re-encodes")
	vsAssertBytesEq(enc, b, "re-encoding-equals-input")
	vsCover("accepts")
}

// pointer-receiver adapters (MarshalSSZ has a value receiver on the payload types)
type vhClientInfo struct {
	ClientInfoAndCapabilitiesPayload
}
type vhBasic struct{ BasicRadiusPayload }
type vhHistory struct{ HistoryRadiusPayload }
type vhError struct{ ErrorPayload }

func (v *vhClientInfo) MarshalSSZ() ([]byte, error) {
	return v.ClientInfoAndCapabilitiesPayload.MarshalSSZ()
}
func (v *vhClientInfo) UnmarshalSSZ(b []byte) error {
	return v.ClientInfoAndCapabilitiesPayload.UnmarshalSSZ(b)
}
func (v *vhBasic) MarshalSSZ() ([]byte, error)   { return v.BasicRadiusPayload.MarshalSSZ() }
func (v *vhBasic) UnmarshalSSZ(b []byte) error   { return v.BasicRadiusPayload.UnmarshalSSZ(b) }
func (v *vhHistory) MarshalSSZ() ([]byte, error) { return v.HistoryRadiusPayload.MarshalSSZ() }
func (v *vhHistory) UnmarshalSSZ(b []byte) error { return v.HistoryRadiusPayload.UnmarshalSSZ(b) }
func (v *vhError) MarshalSSZ() ([]byte, error)   { return v.ErrorPayload.MarshalSSZ() }
func (v *vhError) UnmarshalSSZ(b []byte) error   { return v.ErrorPayload.UnmarshalSSZ(b) }
