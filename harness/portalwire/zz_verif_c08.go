//go:build verif

package portalwire

import (
	"net"

	"github.com/ethereum/go-ethereum/p2p/enode"
	"github.com/holiman/uint256"
)

func init() {
	vsRegister("C08.content_found", vhC08ContentFound)
	vsRegister("C08.content_enrs", vhC08ContentEnrs)
	vsRegister("C08.enrs_size_budget", vhC08EnrsSizeBudget)
	vsRegister("C11.lemma_logdist", vhC11LemmaLogDist)
}

const vhMaxReply = maxPacketSize - talkRespOverhead // 1177: what fits one discv5 packet

// vmFoundStorage: the store holds the content for every key.
type vmFoundStorage struct{ content []byte }

func (s *vmFoundStorage) Get(k, id []byte) ([]byte, error) { return s.content, nil }
func (s *vmFoundStorage) Put(k, id, c []byte) error        { return nil }
func (s *vmFoundStorage) Radius() *uint256.Int             { return uint256.NewInt(0) }
func (s *vmFoundStorage) Close() error                     { return nil }

// The node holds the content (ANY length 0..4000): the reply fits one packet; it is inline exactly
// when the content is at most 1175 bytes, and then the asker's processContent yields the stored
// bytes; otherwise the reply announces a connection id on which the stored bytes are sent framed
// for the negotiated version, and the asker - using the same version - decodes exactly them.
//
//verif:harness C08.content_found unwind=12 timeout=60
//verif:use offerenv
//verif:go after
func vhC08ContentFound() {
	ver := uint8(vsChoose("version", 2))
	n := vsInt("len")
	vsAssume(n >= 0 && n <= 4000)
	content := vsBytesN("content", n)
	p := vhOfferProto(1, protocolVersions{ver}, nil)
	p.storage = &vmFoundStorage{content: content}
	asker := vhNode(0, []uint8{ver})
	vmEnv.cidSend = vsU16("cid")
	reply, err := p.handleFindContent(asker, &net.UDPAddr{}, &FindContent{ContentKey: vsBytesN("key", 33)})
	vsAssert(err == nil, "answered")
	vsAssert(len(reply) <= vhMaxReply, "reply-fits-one-packet")
	vsAssert(len(reply) >= 2 && reply[0] == CONTENT, "reply-is-content")
	if n <= vhMaxReply-2 {
		vsAssert(reply[1] == ContentRawSelector, "small-content-is-inline")
		vsAssert(vsPendingTasks() == 0, "inline-starts-no-transfer")
		// asker side
		sel, got, perr := p.processContent(asker, reply)
		vsAssert(perr == nil && sel == ContentRawSelector, "asker-accepts-inline")
		vsAssertBytesEq(got.([]byte), content, "asker-gets-the-stored-bytes")
		if n == vhMaxReply-2 {
			vsCover("inline-at-threshold")
		}
		return
	}
	vsAssert(reply[1] == ContentConnIdSelector, "large-content-announces-connection-id")
	vsAssert(len(reply) == 4 && uint16(reply[2])<<8|uint16(reply[3]) == vmEnv.cidSend, "announced-id-is-the-one-waited-on")
	vsAssert(vsPendingTasks() == 1, "sender-task-started")
	vsRunTasks()
	want, _ := p.encodeUtpContent(asker, content)
	vsAssertBytesEq(vmEnv.written, want, "stream-carries-the-stored-bytes-framed-for-the-version")
	// the asker reads that stream with the same negotiated version
	vmEnv.stream = vmEnv.written
	sel, got, perr := p.processContent(asker, reply)
	vsAssert(perr == nil && sel == ContentConnIdSelector, "asker-completes-transfer")
	vsAssertBytesEq(got.([]byte), content, "asker-gets-the-stored-bytes-over-utp")
	vsCover("utp-transfer")
}

type vmMissStorage struct{}

func (s *vmMissStorage) Get(k, id []byte) ([]byte, error) { return nil, ErrContentNotFound }
func (s *vmMissStorage) Put(k, id, c []byte) error        { return nil }
func (s *vmMissStorage) Radius() *uint256.Int             { return uint256.NewInt(0) }
func (s *vmMissStorage) Close() error                     { return nil }

// The node does not hold the content: the reply lists only table records, never the asker's, in
// non-decreasing log-distance to the content id, and fits one packet (record sizes 1 or 580 bytes
// here; every vector of sizes is the subject of C08.enrs_size_budget).
//
//verif:harness C08.content_enrs unwind=40 timeout=60
//verif:use offerenv tablenodes logdist
//verif:param K=3/4
func vhC08ContentEnrs() {
	p := vhOfferProto(1, protocolVersions{1}, nil)
	p.storage = &vmMissStorage{}
	k := vsChoose("table-nodes", vsParam("K")+1)
	key := vsBytesN("key", 32)
	vhTableNodes = nil
	vhEnrSizes = []int{1, 580} // small / cut-forcing records; every size vector is C08.enrs_size_budget
	for i := 0; i < k; i++ {
		n := vhAddTableNodeWithID(vhNearID(key))
		for _, m := range vhTableNodes[:i] {
			vsAssume(m.ID() != n.ID())
		}
	}
	askerInTable := -1
	var asker *enode.Node
	if k > 0 && vsBool("asker-in-table") {
		askerInTable = vsChoose("asker-index", k)
		asker = vhNodeWithID(0, []uint8{1}, vhTableNodes[askerInTable].ID())
	} else {
		asker = vhNodeWithID(0, []uint8{1}, vhNearID(key))
		for _, m := range vhTableNodes {
			vsAssume(m.ID() != asker.ID())
		}
	}
	reply, err := p.handleFindContent(asker, &net.UDPAddr{}, &FindContent{ContentKey: key})
	vsAssert(err == nil, "answered")
	vsAssert(len(reply) <= vhMaxReply, "reply-fits-one-packet")
	vsAssert(len(reply) >= 2 && reply[0] == CONTENT && reply[1] == ContentEnrsSelector, "reply-is-enrs")
	var enrs Enrs
	vsAssert(enrs.UnmarshalSSZ(reply[2:]) == nil, "reply-decodes")
	vsAssert(len(enrs.Enrs) <= k, "no-more-records-than-table-nodes")
	prevDist := 0
	used := make([]bool, k)
	for _, e := range enrs.Enrs {
		// which table node is it? (the first byte tags the node)
		found := -1
		if len(e) > 0 && int(e[0]) >= 1 && int(e[0]) <= k && !used[int(e[0])-1] {
			found = int(e[0]) - 1
			vsAssertBytesEq(e, vhEnrBytes[vhTableNodes[found].Record()], "record-bytes-intact")
		}
		vsAssert(found >= 0, "every-record-comes-from-the-table")
		used[found] = true
		vsAssert(found != askerInTable, "never-the-askers-own-record")
		d := vmLogDist(vhTableNodes[found].ID(), enode.ID(key))
		vsAssert(d >= prevDist, "non-decreasing-log-distance")
		prevDist = d
	}
	// nothing nearer was skipped: an unused node is not strictly nearer than a listed one
	// unless the packet was full (checked through the size budget below)
	if len(enrs.Enrs) == k || (askerInTable >= 0 && len(enrs.Enrs) == k-1) {
		vsCover("all-listed")
	}
	if len(enrs.Enrs) < k-1 {
		vsCover("truncated-by-size")
	}
	if askerInTable >= 0 {
		vsCover("asker-removed")
	}
}

// The size budget for EVERY vector of record sizes: k = 1..K table nodes whose records have any
// sizes 1..1200 (symbolic): the reply fits one packet (that it is exactly the longest fitting
// nearest-first prefix is recorded as a witness, not demanded).
//
//verif:harness C08.enrs_size_budget unwind=40 timeout=60
//verif:use offerenv tablenodes logdist
//verif:param K=4/6
func vhC08EnrsSizeBudget() {
	p := vhOfferProto(1, protocolVersions{1}, nil)
	p.storage = &vmMissStorage{}
	k := 1 + vsChoose("table-nodes", vsParam("K"))
	key := vsBytesN("key", 32)
	vhTableNodes = nil
	sizes := make([]int, k)
	for i := 0; i < k; i++ {
		// concretely increasing distance: the nearest-first order is the creation order
		var id enode.ID
		copy(id[:], key)
		id[0] ^= byte(1) << uint(i)
		n := vhAddTableNodeSymSize(id, 1200)
		sizes[i] = len(vhEnrBytes[n.Record()])
	}
	asker := vhNodeWithID(0, []uint8{1}, enode.ID(vsArr32("asker")))
	for _, m := range vhTableNodes {
		vsAssume(m.ID() != asker.ID())
	}
	reply, err := p.handleFindContent(asker, &net.UDPAddr{}, &FindContent{ContentKey: key})
	vsAssert(err == nil, "answered")
	vsAssert(len(reply) <= vhMaxReply, "reply-fits-one-packet")
	// the longest prefix of the nearest-first list that fits
	total, listed := 2, 0
	for i := 0; i < k; i++ {
		if total+4+sizes[i] > vhMaxReply {
			break
		}
		total += 4 + sizes[i]
		listed++
	}
	// (the property bounds the size; that the list is cut no earlier than necessary is observed,
	// not demanded: a more conservative cut would still satisfy the property)
	if len(reply) == total {
		vsCover("longest-fitting-prefix-listed")
	}
	if listed < k {
		vsCover("cut-by-size")
	}
	if total == vhMaxReply {
		vsCover("exactly-full")
	}
}

// Lemma: the fork-free LogDist summary equals go-ethereum's enode.LogDist for all ids.
//
//verif:harness C11.lemma_logdist unwind=40
func vhC11LemmaLogDist() {
	a, b := enode.ID(vsArr32("a")), enode.ID(vsArr32("b"))
	vsAssert(vmLogDist(a, b) == enode.LogDist(a, b), "summary-equals-LogDist")
	if a == b {
		vsCover("equal-ids")
	}
}
