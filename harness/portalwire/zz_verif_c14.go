//go:build verif

package portalwire

import (
	bitfield "github.com/OffchainLabs/go-bitfield"
)

type vhCodec interface {
	MarshalSSZ() ([]byte, error)
	UnmarshalSSZ([]byte) error
}

func init() {
	vsRegister("C14.pingpong_value", vhC14PingPongValue)
	vsRegister("C14.bytes_msgs_value", vhC14BytesMsgsValue)
	vsRegister("C14.lists_value", vhC14ListsValue)
	vsRegister("C14.accept_value", vhC14AcceptValue)
	vsRegister("C14.findnodes_value", vhC14FindNodesValue)
	vsRegister("C14.canonical_ping", vhC14CanonicalPing)
	vsRegister("C14.canonical_pong", vhC14CanonicalPong)
	vsRegister("C14.canonical_findnodes", vhC14CanonicalFindNodes)
	vsRegister("C14.canonical_nodes", vhC14CanonicalNodes)
	vsRegister("C14.canonical_findcontent", vhC14CanonicalFindContent)
	vsRegister("C14.canonical_content", vhC14CanonicalContent)
	vsRegister("C14.canonical_enrs", vhC14CanonicalEnrs)
	vsRegister("C14.canonical_connid", vhC14CanonicalConnId)
	vsRegister("C14.canonical_offer", vhC14CanonicalOffer)
	vsRegister("C14.canonical_accept", vhC14CanonicalAccept)
	vsRegister("C14.canonical_acceptv1", vhC14CanonicalAcceptV1)
	vsRegister("C14.decode_limits", vhC14DecodeLimits)
	vsRegister("C14.decode_limits_lists", vhC14DecodeLimitsLists)
}

// Laws 1+2 for Ping/Pong: in-limit values round-trip; over-limit payloads fail to encode or the
// encoding is rejected by the decoder. Payload length symbolic 0..1300 (limit 1100).
//
//verif:harness C14.pingpong_value unwind=8 native
func vhC14PingPongValue() {
	n := vsInt("n")
	vsAssume(n >= 0 && n <= 1300)
	seq, pt, payload := vsU64("seq"), vsU16("pt"), vsBytesN("payload", n)
	var enc []byte
	var err error
	pong := vsChoose("pong", 2) == 1
	if pong {
		enc, err = (&Pong{EnrSeq: seq, PayloadType: pt, Payload: payload}).MarshalSSZ()
	} else {
		enc, err = (&Ping{EnrSeq: seq, PayloadType: pt, Payload: payload}).MarshalSSZ()
	}
	if n > 1100 {
		if err == nil {
			var derr error
			if pong {
				derr = new(Pong).UnmarshalSSZ(enc)
			} else {
				derr = new(Ping).UnmarshalSSZ(enc)
			}
			vsAssert(derr != nil, "over-limit-encoding-rejected")
		}
		vsCover("over-limit")
		return
	}
	vsAssert(err == nil, "in-limit-encodes")
	vsAssert(len(enc) == 14+n, "size")
	if pong {
		var d Pong
		vsAssert(d.UnmarshalSSZ(enc) == nil, "decodes")
		vsAssert(d.EnrSeq == seq && d.PayloadType == pt, "fixed-fields")
		vsAssertBytesEq(d.Payload, payload, "payload")
	} else {
		var d Ping
		vsAssert(d.UnmarshalSSZ(enc) == nil, "decodes")
		vsAssert(d.EnrSeq == seq && d.PayloadType == pt, "fixed-fields")
		vsAssertBytesEq(d.Payload, payload, "payload")
	}
	if n == 1100 {
		vsCover("at-limit")
	}
}

// Laws 1+2 for the single-byte-string messages: FindContent (2048), Content (2048),
// ConnectionId (exactly 2).
//
//verif:harness C14.bytes_msgs_value unwind=8 native
func vhC14BytesMsgsValue() {
	n := vsInt("n")
	vsAssume(n >= 0 && n <= 2200)
	b := vsBytesN("b", n)
	switch vsChoose("type", 3) {
	case 0:
		enc, err := (&FindContent{ContentKey: b}).MarshalSSZ()
		if n > 2048 {
			if err == nil {
				vsAssert(new(FindContent).UnmarshalSSZ(enc) != nil, "findcontent-over-limit-rejected")
			}
			vsCover("findcontent-over")
			return
		}
		vsAssert(err == nil, "findcontent-encodes")
		var d FindContent
		vsAssert(d.UnmarshalSSZ(enc) == nil, "findcontent-decodes")
		vsAssertBytesEq(d.ContentKey, b, "findcontent-key")
		if n == 2048 {
			vsCover("findcontent-at-limit")
		}
	case 1:
		enc, err := (&Content{Content: b}).MarshalSSZ()
		if n > 2048 {
			if err == nil {
				vsAssert(new(Content).UnmarshalSSZ(enc) != nil, "content-over-limit-rejected")
			}
			vsCover("content-over")
			return
		}
		vsAssert(err == nil, "content-encodes")
		var d Content
		vsAssert(d.UnmarshalSSZ(enc) == nil, "content-decodes")
		vsAssertBytesEq(d.Content, b, "content-bytes")
	case 2:
		vsAssume(n <= 6)
		enc, err := (&ConnectionId{Id: b}).MarshalSSZ()
		if n != 2 {
			if err == nil {
				vsAssert(new(ConnectionId).UnmarshalSSZ(enc) != nil, "connid-wrong-size-rejected")
			}
			vsCover("connid-wrong-size")
			return
		}
		vsAssert(err == nil, "connid-encodes")
		var d ConnectionId
		vsAssert(d.UnmarshalSSZ(enc) == nil, "connid-decodes")
		vsAssertBytesEq(d.Id, b, "connid-bytes")
	}
}

// Laws 1+2 for the list-of-byte-strings messages Offer (64 x 2048), Nodes and Enrs (32 x 2048):
// k items (shape enumeration incl. the limit and one beyond), each item of symbolic length
// 0..2200 for small k and 0..2 for the big shapes.
//
//verif:harness C14.lists_value unwind=80 native timeout=120
//verif:param K=3/4 S=1/2
func vhC14ListsValue() {
	typ := vsChoose("type", 3)
	limit := 32
	if typ == 0 {
		limit = 64
	}
	shapes := vsParam("K") + 1 // 0..K items, then limit and limit+1
	sh := vsChoose("shape", shapes+2)
	k := sh
	big := false
	if sh == shapes {
		k, big = limit, true
	} else if sh == shapes+1 {
		k, big = limit+1, true
	}
	items := make([][]byte, k)
	over := k > limit
	for i := range items {
		var n int
		switch {
		case big:
			n = i % 3 // concrete small lengths for the 32/33/64/65-item shapes
		case k <= vsParam("S"):
			n = vsInt("n") // fully symbolic length, beyond the per-item limit
			vsAssume(n >= 0 && n <= 2200)
		default:
			n = []int{0, 1, 5}[vsChoose("len", 3)]
		}
		if n > 2048 {
			over = true
		}
		items[i] = vsBytesN("item", n)
	}
	total := vsU8("total")
	var m, d vhCodec
	switch typ {
	case 0:
		m, d = &Offer{ContentKeys: items}, &Offer{}
	case 1:
		m, d = &Nodes{Total: total, Enrs: items}, &Nodes{}
	default:
		m, d = &Enrs{Enrs: items}, &Enrs{}
	}
	enc, err := m.MarshalSSZ()
	if over {
		if err == nil {
			vsAssert(d.UnmarshalSSZ(enc) != nil, "over-limit-encoding-rejected")
		}
		vsCover("over-limit")
		return
	}
	vsAssert(err == nil, "in-limit-encodes")
	vsAssert(d.UnmarshalSSZ(enc) == nil, "decodes")
	var got [][]byte
	switch x := d.(type) {
	case *Offer:
		got = x.ContentKeys
	case *Nodes:
		got = x.Enrs
		vsAssert(x.Total == total, "total")
	case *Enrs:
		got = x.Enrs
	}
	vsAssert(len(got) == k, "same-count")
	for i := range items {
		vsAssertBytesEq(got[i], items[i], "item-intact")
	}
	if big {
		vsCover("at-limit")
	}
}

// Laws 1+2 for Accept (bit list, 64 bits) and AcceptV1 (64 codes).
//
//verif:harness C14.accept_value unwind=80 native
func vhC14AcceptValue() {
	cid := vsBytesN("cid", 2)
	if vsChoose("v1", 2) == 1 {
		n := vsInt("n")
		vsAssume(n >= 0 && n <= 70)
		codes := vsBytesN("codes", n)
		enc, err := (&AcceptV1{ConnectionId: cid, ContentKeys: codes}).MarshalSSZ()
		if n > 64 {
			if err == nil {
				vsAssert(new(AcceptV1).UnmarshalSSZ(enc) != nil, "v1-over-limit-rejected")
			}
			vsCover("v1-over")
			return
		}
		vsAssert(err == nil, "v1-encodes")
		var d AcceptV1
		vsAssert(d.UnmarshalSSZ(enc) == nil, "v1-decodes")
		vsAssertBytesEq(d.ConnectionId, cid, "v1-connid")
		vsAssertBytesEq(d.ContentKeys, codes, "v1-codes")
		if n == 64 {
			vsCover("v1-at-limit")
		}
		return
	}
	bitsN := []int{0, 1, 7, 8, 9, 63, 64, 65, 72}[vsChoose("bits", 9)]
	// a well-formed bit list of bitsN bits: symbolic data bits, length bit at position bitsN
	bl := bitfield.Bitlist(vsBytesN("bl", bitsN/8+1))
	vsAssume(bl[bitsN/8]>>(uint(bitsN)%8) == 1)
	enc, err := (&Accept{ConnectionId: cid, ContentKeys: bl}).MarshalSSZ()
	if bitsN > 64 {
		if err == nil {
			vsAssert(new(Accept).UnmarshalSSZ(enc) != nil, "v0-over-limit-rejected")
		}
		vsCover("v0-over")
		return
	}
	vsAssert(err == nil, "v0-encodes")
	var d Accept
	vsAssert(d.UnmarshalSSZ(enc) == nil, "v0-decodes")
	vsAssertBytesEq(d.ConnectionId, cid, "v0-connid")
	vsAssertBytesEq(d.ContentKeys, bl, "v0-bitlist")
	vsAssert(d.GetKeyLength() == bitsN, "v0-key-length")
	if bitsN == 64 {
		vsCover("v0-at-limit")
	}
}

// Laws 1+2 for FindNodes (256 distances).
//
//verif:harness C14.findnodes_value unwind=300 native
func vhC14FindNodesValue() {
	k := []int{0, 1, 2, 3, 256, 257}[vsChoose("k", 6)]
	ds := make([][2]byte, k)
	raw := vsBytesN("raw", 2*k)
	for i := range ds {
		ds[i] = [2]byte{raw[2*i], raw[2*i+1]}
	}
	enc, err := (&FindNodes{Distances: ds}).MarshalSSZ()
	if k > 256 {
		if err == nil {
			vsAssert(new(FindNodes).UnmarshalSSZ(enc) != nil, "over-limit-rejected")
		}
		vsCover("over-limit")
		return
	}
	vsAssert(err == nil, "encodes")
	var d FindNodes
	vsAssert(d.UnmarshalSSZ(enc) == nil, "decodes")
	vsAssert(len(d.Distances) == k, "count")
	for i := range ds {
		vsAssert(d.Distances[i] == ds[i], "distance")
	}
	if k == 256 {
		vsCover("at-limit")
	}
}

// Law 3 (canonical decoding): ANY byte string of length 0..L that decodes re-encodes to itself.
// One harness per message type (they run in parallel).
func vhC14CanonicalOf(m vhCodec) {
	b := vsBytes("b", vsParam("L"))
	if m.UnmarshalSSZ(b) != nil {
		vsCover("rejects")
		return
	}
	enc, err := m.MarshalSSZ()
	vsAssert(err == nil, "decoded-value-re-encodes")
	vsAssertBytesEq(enc, b, "re-encoding-equals-input")
	vsCover("accepts")
}

//verif:harness C14.canonical_ping unwind=40 native
//verif:param L=24/64
func vhC14CanonicalPing() { vhC14CanonicalOf(&Ping{}) }

//verif:harness C14.canonical_pong unwind=40 native
//verif:param L=24/64
func vhC14CanonicalPong() { vhC14CanonicalOf(&Pong{}) }

//verif:harness C14.canonical_findnodes unwind=40 native
//verif:param L=20/40
func vhC14CanonicalFindNodes() { vhC14CanonicalOf(&FindNodes{}) }

//verif:harness C14.canonical_nodes unwind=40 native
//verif:param L=20/32
func vhC14CanonicalNodes() { vhC14CanonicalOf(&Nodes{}) }

//verif:harness C14.canonical_findcontent unwind=40 native
//verif:param L=24/64
func vhC14CanonicalFindContent() { vhC14CanonicalOf(&FindContent{}) }

//verif:harness C14.canonical_content unwind=40 native
//verif:param L=24/64
func vhC14CanonicalContent() { vhC14CanonicalOf(&Content{}) }

//verif:harness C14.canonical_enrs unwind=40 native
//verif:param L=20/32
func vhC14CanonicalEnrs() { vhC14CanonicalOf(&Enrs{}) }

//verif:harness C14.canonical_connid unwind=40 native
//verif:param L=24/64
func vhC14CanonicalConnId() { vhC14CanonicalOf(&ConnectionId{}) }

//verif:harness C14.canonical_offer unwind=40 native
//verif:param L=20/32
func vhC14CanonicalOffer() { vhC14CanonicalOf(&Offer{}) }

//verif:harness C14.canonical_accept unwind=40 native
//verif:param L=20/40
func vhC14CanonicalAccept() { vhC14CanonicalOf(&Accept{}) }

//verif:harness C14.canonical_acceptv1 unwind=80 native
//verif:param L=24/80
func vhC14CanonicalAcceptV1() { vhC14CanonicalOf(&AcceptV1{}) }

// Limits are enforced when decoding, with the limit itself reachable: input length symbolic up to
// well beyond the limit, contents symbolic.
//
//verif:harness C14.decode_limits unwind=80 native
func vhC14DecodeLimits() {
	n := vsInt("n")
	vsAssume(n >= 0 && n <= 2600)
	b := vsBytesN("b", n)
	switch vsChoose("type", 6) {
	case 0:
		var m Ping
		if m.UnmarshalSSZ(b) == nil {
			vsAssert(len(m.Payload) <= 1100, "ping-payload-limit")
			if len(m.Payload) == 1100 {
				vsCover("ping-at-limit")
			}
		}
	case 1:
		var m Pong
		if m.UnmarshalSSZ(b) == nil {
			vsAssert(len(m.Payload) <= 1100, "pong-payload-limit")
		}
	case 2:
		var m FindContent
		if m.UnmarshalSSZ(b) == nil {
			vsAssert(len(m.ContentKey) <= 2048, "findcontent-key-limit")
			if len(m.ContentKey) == 2048 {
				vsCover("findcontent-at-limit")
			}
		}
	case 3:
		var m Content
		if m.UnmarshalSSZ(b) == nil {
			vsAssert(len(m.Content) <= 2048, "content-limit")
		}
	case 4:
		var m ConnectionId
		if m.UnmarshalSSZ(b) == nil {
			vsAssert(len(m.Id) == 2, "connid-size")
			vsCover("connid-ok")
		}
	case 5:
		vsAssume(n <= 100)
		var m AcceptV1
		if m.UnmarshalSSZ(b) == nil {
			vsAssert(len(m.ContentKeys) <= 64 && len(m.ConnectionId) == 2, "acceptv1-limit")
			if len(m.ContentKeys) == 64 {
				vsCover("acceptv1-at-limit")
			}
		}
	}
}

// vhC14ListInput builds the encoding of a list of k byte strings of which the first k-1 are empty
// and the last has s (symbolic) arbitrary bytes, behind a fixed part of hdr bytes whose last four
// bytes are the offset of the list.
func vhC14ListInput(hdr, k int, s int) []byte {
	b := vsBytesN("b", hdr+4*k+s)
	if hdr >= 4 {
		b[hdr-4], b[hdr-3], b[hdr-2], b[hdr-1] = byte(hdr), 0, 0, 0
	}
	for i := 0; i < k; i++ {
		o := 4 * k
		b[hdr+4*i], b[hdr+4*i+1], b[hdr+4*i+2], b[hdr+4*i+3] = byte(o), byte(o>>8), 0, 0
	}
	return b
}

// The count limits of the list messages (256 distances, 64 offered keys, 32 ENRs) and the size
// limit of each list element (2048) are enforced when decoding, with the limits themselves
// accepted. Counts are taken at and around the limit and at its double; the element size is
// symbolic.
//
//verif:harness C14.decode_limits_lists unwind=1100 native
func vhC14DecodeLimitsLists() {
	switch vsChoose("type", 4) {
	case 0:
		k := []int{255, 256, 257, 258, 511, 512, 513, 1024}[vsChoose("k", 8)]
		b := vsBytesN("b", 4+2*k)
		b[0], b[1], b[2], b[3] = 4, 0, 0, 0
		var m FindNodes
		err := m.UnmarshalSSZ(b)
		if k <= 256 {
			vsAssert(err == nil && len(m.Distances) == k, "findnodes-in-limit-accepted")
			vsCover("findnodes-in-limit")
		} else {
			vsAssert(err != nil, "findnodes-distance-limit")
		}
	case 1:
		k := []int{63, 64, 65, 66, 128, 129}[vsChoose("k", 6)]
		s := vsInt("s")
		vsAssume(s >= 0 && s <= 2100)
		var m Offer
		err := m.UnmarshalSSZ(vhC14ListInput(4, k, s))
		if k <= 64 && s <= 2048 {
			vsAssert(err == nil && len(m.ContentKeys) == k && len(m.ContentKeys[k-1]) == s, "offer-in-limit-accepted")
			if s == 2048 {
				vsCover("offer-key-at-limit")
			}
		} else {
			vsAssert(err != nil, "offer-limits")
		}
	case 2:
		k := []int{31, 32, 33, 34, 64, 65}[vsChoose("k", 6)]
		s := vsInt("s")
		vsAssume(s >= 0 && s <= 2100)
		var m Nodes
		err := m.UnmarshalSSZ(vhC14ListInput(5, k, s))
		if k <= 32 && s <= 2048 {
			vsAssert(err == nil && len(m.Enrs) == k && len(m.Enrs[k-1]) == s, "nodes-in-limit-accepted")
			if s == 2048 {
				vsCover("nodes-enr-at-limit")
			}
		} else {
			vsAssert(err != nil, "nodes-limits")
		}
	case 3:
		k := []int{31, 32, 33, 34, 64, 65}[vsChoose("k", 6)]
		s := vsInt("s")
		vsAssume(s >= 0 && s <= 2100)
		var m Enrs
		err := m.UnmarshalSSZ(vhC14ListInput(0, k, s))
		if k <= 32 && s <= 2048 {
			vsAssert(err == nil && len(m.Enrs) == k && len(m.Enrs[k-1]) == s, "enrs-in-limit-accepted")
			if s == 2048 {
				vsCover("enrs-enr-at-limit")
			}
		} else {
			vsAssert(err != nil, "enrs-limits")
		}
	}
}
