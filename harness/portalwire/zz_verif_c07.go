//go:build verif

package portalwire

import (
	"github.com/ethereum/go-ethereum/p2p/enode"
)

func init() {
	vsRegister("C07.add_node", vhC07AddNode)
	vsRegister("C07.delete_and_track", vhC07DeleteAndTrack)
	vsRegister("C07.revalidation", vhC07Revalidation)
	vsRegister("C07.stale_revalidation_answer", vhC07StaleRevalidationAnswer)
}

// vhShapes: bucket fillings (entries, replacements) explored: small ones and the full boundaries.
func vhShape() (int, int) {
	shapes := [][2]int{{0, 0}, {1, 0}, {2, 1}, {16, 0}, {16, 1}, {16, 10}, {3, 10}}
	n := vsParam("SHAPES")
	sh := shapes[vsChoose("shape", n)]
	return sh[0], sh[1]
}

// vhCandidate: the node an operation is about: an existing entry's id with a new record, a
// replacement's id, the local id, or a new id in this or another bucket.
func (s *vhTabState) vhCandidate() *enode.Node {
	switch vsChoose("candidate", 5) {
	case 0:
		if len(s.entries) > 0 {
			return vhTabNodeID(s.entries[vsChoose("which-entry", min(len(s.entries), 2))].ID())
		}
	case 1:
		if len(s.repls) > 0 {
			return vhTabNodeID(s.repls[vsChoose("which-repl", min(len(s.repls), 2))].ID())
		}
	case 2:
		return vhTabNodeID(s.selfID)
	case 3:
		return vhTabNodeID(vhIDInBucket(s.selfID, s.bucketIndex, 200+vsU8("cand-tag")&15))
	}
	other := 16
	if s.bucketIndex == 16 {
		other = 15
	}
	return vhTabNodeID(vhIDInBucket(s.selfID, other, 200))
}

// Add (found or inbound): invariants preserved, no panic; C18: a full bucket never loses an entry
// to a newcomer - the newcomer can only become the first replacement; an existing entry's record
// changes only to a higher sequence number (any change when inbound) and an endpoint change clears
// its verified status and puts it on the fast list.
//
//verif:harness C07.add_node unwind=80 timeout=60 wall=900/7200 noassumecheck
//verif:use tablestep
//verif:param SHAPES=6/7 BUCKETS=2/4
func vhC07AddNode() {
	vhInitDoneSymbolic = true
	k, m := vhShape()
	s := vhMakeTable(k, m)
	cand := s.vhCandidate()
	inbound := vsBool("inbound")
	added := s.tab.handleAddNode(addNodeOp{node: cand, isInbound: inbound})
	s.vhCheckInvariant()
	b := s.b
	// C18: no entry is ever removed by an add
	for i, tn := range s.entries {
		vsAssert(vhIndexOf(b.entries, tn) >= 0, "add-never-removes-an-entry")
		if tn.Node != s.records[i] {
			// record replaced: only by the candidate with the same id, higher seq or inbound
			vsAssert(tn.Node == cand && cand.ID() == s.records[i].ID(), "record-replaced-only-by-same-id")
			vsAssert(vmTabNodes[cand].seq > vmTabNodes[s.records[i]].seq || inbound, "record-changes-only-to-higher-seq-unless-inbound")
			og, ng := vmTabNodes[s.records[i]], vmTabNodes[cand]
			if og.addr != ng.addr || og.udp != ng.udp {
				vsAssert(!tn.isValidatedLive, "endpoint-change-clears-verified-status")
				if tn.revalList == &s.tab.revalidation.fast {
					vsCover("endpoint-change-moves-to-fast-list")
				}
				vsCover("endpoint-changed")
			}
			vsCover("record-updated")
		} else if tn.isValidatedLive == s.live[i] && tn.livenessChecks == s.checks[i] {
			vsCover("untouched-entry-keeps-liveness-state")
		}
	}
	if k == bucketSize && s.tab.bucket(cand.ID()) == b {
		vsAssert(!added && len(b.entries) == bucketSize, "full-bucket-takes-no-newcomer")
		if len(b.replacements) > 0 && b.replacements[0].Node == cand {
			vsAssert(m == maxReplacements || len(b.replacements) == m+1, "newcomer-becomes-first-replacement")
			for i, tn := range s.repls {
				if i+1 < len(b.replacements) {
					vsAssert(b.replacements[i+1] == tn, "older-replacements-shift-down-in-order")
				}
			}
			vsCover("newcomer-to-replacements")
		}
	}
	if added {
		vsAssert(len(b.entries) == k+1 || s.tab.bucket(cand.ID()) != b, "added-node-appended")
		vsCover("added")
	}
}

// Explicit deletion and lookup feedback: an entry leaves only by explicit deletion or after five
// consecutive fruitless queries while the bucket has at least four entries, and is then succeeded
// by a (randomly chosen) replacement if one exists.
//
//verif:harness C07.delete_and_track unwind=80 timeout=60 wall=900/7200 noassumecheck
//verif:use tablestep
//verif:param SHAPES=6/7 BUCKETS=2/4
func vhC07DeleteAndTrack() {
	vhInitDoneSymbolic = false
	k, m := vhShape()
	s := vhMakeTable(k, m)
	cand := s.vhCandidate()
	b := s.b
	isEntry := -1
	for i, tn := range s.entries {
		if tn.ID() == cand.ID() {
			isEntry = i
		}
	}
	explicit := vsBool("explicit-delete")
	vhRandIntn = -1
	mayRemove := false
	if explicit {
		s.tab.deleteNode(cand)
		mayRemove = true
	} else {
		success := vsBool("query-succeeded")
		vhFindFails = vsChoose("previous-failures", 6)
		var found []*enode.Node
		if vsBool("found-a-node") {
			found = []*enode.Node{vhTabNodeID(vhIDInBucket(s.selfID, s.bucketIndex, 220))}
		}
		s.tab.handleTrackRequest(trackRequestOp{node: cand, success: success, foundNodes: found})
		mayRemove = !success && vhFindFails+1 >= maxFindnodeFailures && k >= bucketSize/4
		if !success && vhFindFails+1 >= maxFindnodeFailures && k < bucketSize/4 {
			vsCover("failures-but-small-bucket")
		}
	}
	s.vhCheckInvariant()
	for i, tn := range s.entries {
		gone := vhIndexOf(b.entries, tn) < 0
		if gone {
			vsAssert(i == isEntry && mayRemove, "entry-leaves-only-by-deletion-or-five-failures")
			if m > 0 {
				vsAssert(vhRandIntn >= 0 && vhIndexOf(b.entries, s.repls[vhRandIntn]) >= 0, "removed-entry-succeeded-by-chosen-replacement")
				vsAssert(vhIndexOf(b.replacements, s.repls[vhRandIntn]) < 0, "promoted-replacement-leaves-the-list")
				vsCover("replaced")
			} else {
				vsCover("removed-without-replacement")
			}
		} else if i == isEntry && mayRemove {
			vsAssert(false, "deletion-removes-the-entry")
		}
	}
}

// Revalidation answers: a failed check divides the liveness credit by three and removes the entry
// only when it reaches zero (then a replacement succeeds it); a passed check adds one credit, marks
// the entry verified and moves it to the slow list unless its endpoint changed.
//
//verif:harness C07.revalidation unwind=80 timeout=60 wall=900/7200 noassumecheck
//verif:use tablestep
//verif:param SHAPES=6/7 BUCKETS=2/4
func vhC07Revalidation() {
	vhInitDoneSymbolic = false
	k, m := vhShape()
	vsAssume(k > 0)
	s := vhMakeTable(k, m)
	b := s.b
	i := vsChoose("checked-entry", min(k, 2))
	tn := s.entries[i]
	responded := vsBool("responded")
	var newRecord *enode.Node
	if responded && vsBool("new-record") {
		newRecord = vhTabNodeID(tn.ID())
	}
	s.tab.revalidation.activeReq[tn.ID()] = struct{}{}
	vhRandIntn = -1
	s.tab.revalidation.handleResponse(s.tab, revalidationResponse{n: tn, newRecord: newRecord, didRespond: responded})
	s.vhCheckInvariant()
	_, stillActive := s.tab.revalidation.activeReq[tn.ID()]
	vsAssert(!stillActive, "request-marked-finished")
	present := vhIndexOf(b.entries, tn) >= 0
	if !responded {
		// (how fast credit is used up - a third per failed check here - and the list the entry moves
		// to are the implementation's choice; the property fixes when an entry may leave)
		vsAssert(tn.livenessChecks <= s.checks[i], "failed-check-does-not-add-credit")
		if !present {
			vsAssert(tn.livenessChecks == 0, "entry-leaves-only-when-its-credit-is-exhausted")
			if m > 0 {
				succeeded := false
				for _, r := range s.repls {
					if vhIndexOf(b.entries, r) >= 0 {
						succeeded = true
					}
				}
				vsAssert(succeeded, "removed-entry-succeeded-by-a-replacement")
			}
			vsCover("dropped")
		} else {
			vsAssert(tn.livenessChecks > 0, "exhausted-credit-removes-the-entry")
			if tn.livenessChecks == s.checks[i]/3 && tn.revalList == &s.tab.revalidation.fast {
				vsCover("credit-divided-by-three-and-moved-to-fast-list")
			}
			vsCover("credit-reduced")
		}
	} else {
		vsAssert(present, "responding-entry-stays")
		vsAssert(tn.livenessChecks >= s.checks[i], "passed-check-does-not-reduce-credit")
		changed := false
		if newRecord != nil && tn.Node == newRecord {
			og, ng := vmTabNodes[s.records[i]], vmTabNodes[newRecord]
			vsAssert(ng.seq > og.seq, "record-changes-only-to-higher-seq")
			changed = og.addr != ng.addr || og.udp != ng.udp
		}
		if changed {
			vsAssert(!tn.isValidatedLive, "endpoint-change-clears-verified-status")
			vsCover("endpoint-changed")
		} else {
			vsAssert(tn.isValidatedLive, "passed-check-marks-the-entry-verified")
			if tn.revalList == &s.tab.revalidation.slow {
				vsCover("verified-entry-on-the-slow-list")
			}
			vsCover("verified")
		}
	}
	for j, o := range s.entries {
		if j != i {
			vsAssert(vhIndexOf(b.entries, o) >= 0, "other-entries-untouched")
		}
	}
}

// A revalidation answer for an entry that was removed while its check was in flight - also when a
// node with the SAME id has been added again in the meantime (the table then holds a different
// entry object for that id): the stale answer changes nothing and does not panic.
//
//verif:harness C07.stale_revalidation_answer unwind=80 timeout=60 wall=900/7200 noassumecheck
//verif:use tablestep
//verif:param SHAPES=6/7 BUCKETS=2/4
func vhC07StaleRevalidationAnswer() {
	vhInitDoneSymbolic = false
	k, m := vhShape()
	s := vhMakeTable(k, m)
	b := s.b
	// the orphan: removed from the table (on no revalidation list), arbitrary liveness state
	var orphan *tableNode
	readded := k > 0 && vsBool("same-id-added-again")
	i := 0
	if readded {
		i = vsChoose("readded-entry", min(k, 2))
		orphan = &tableNode{Node: vhTabNodeID(s.entries[i].ID())}
	} else {
		orphan = &tableNode{Node: vhTabNodeID(vhIDInBucket(s.selfID, s.bucketIndex, 100))}
	}
	orphan.livenessChecks = uint(vsU8("orphan-credit") & 7)
	orphan.isValidatedLive = vsBool("orphan-verified")
	responded := vsBool("responded")
	var newRecord *enode.Node
	if responded && vsBool("new-record") {
		newRecord = vhTabNodeID(orphan.ID())
	}
	s.tab.revalidation.activeReq[orphan.ID()] = struct{}{}
	s.tab.revalidation.handleResponse(s.tab, revalidationResponse{n: orphan, newRecord: newRecord, didRespond: responded})
	s.vhCheckInvariant()
	vsAssert(len(b.entries) == k && len(b.replacements) == m, "stale-answer-leaves-the-bucket-as-it-was")
	for j, tn := range s.entries {
		vsAssert(vhIndexOf(b.entries, tn) >= 0, "stale-answer-removes-no-entry")
		vsAssert(tn.Node == s.records[j] && tn.isValidatedLive == s.live[j] && tn.livenessChecks == s.checks[j], "stale-answer-changes-no-entry")
	}
	vsAssert(orphan.revalList == nil, "removed-entry-is-not-put-back-on-a-list")
	if readded {
		vsCover("same-id-added-again")
	}
}

// C18 uses the same steps: its clauses are the displacement / record / credit assertions above.

func init() {
	vsRegister("C18.add_step", vhC18AddStep)
	vsRegister("C18.stale_revalidation_answer_step", vhC18StaleRevalidationAnswerStep)
	vsRegister("C18.delete_and_track_step", vhC18DeleteAndTrackStep)
	vsRegister("C18.revalidation_step", vhC18RevalidationStep)
}

//verif:harness C18.add_step unwind=80 timeout=60 wall=900/7200 noassumecheck
//verif:use tablestep
//verif:param SHAPES=6/7 BUCKETS=2/4
func vhC18AddStep() { vhC07AddNode() }

//verif:harness C18.stale_revalidation_answer_step unwind=80 timeout=60 wall=900/7200 noassumecheck
//verif:use tablestep
//verif:param SHAPES=6/7 BUCKETS=2/4
func vhC18StaleRevalidationAnswerStep() { vhC07StaleRevalidationAnswer() }

//verif:harness C18.delete_and_track_step unwind=80 timeout=60 wall=900/7200 noassumecheck
//verif:use tablestep
//verif:param SHAPES=6/7 BUCKETS=2/4
func vhC18DeleteAndTrackStep() { vhC07DeleteAndTrack() }

//verif:harness C18.revalidation_step unwind=80 timeout=60 wall=900/7200 noassumecheck
//verif:use tablestep
//verif:param SHAPES=6/7 BUCKETS=2/4
func vhC18RevalidationStep() { vhC07Revalidation() }
