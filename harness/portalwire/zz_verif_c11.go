//go:build verif

package portalwire

import (
	"net"

	"github.com/ethereum/go-ethereum/p2p/enode"
	"github.com/ethereum/go-ethereum/p2p/enr"
)

func init() {
	vsRegister("C11.find_nodes_reply", vhC11FindNodesReply)
	vsRegister("C11.verify_response", vhC11VerifyResponse)
	vsRegister("C11.nodes_size_budget", vhC11NodesSizeBudget)
}

// FINDNODES reply: for a list of 0..D requested distances (values 0..65535, repeats allowed) and a
// table with 0..K entries in one bucket (liveness flags, relay verdicts and ENR sizes arbitrary):
// the reply fits one packet, has at most 32 records, every record is either the local record
// (only if distance 0 was requested) or a table entry of a bucket covering a requested distance
// <= 256, liveness-checked (when the check is on) and relay-safe.
//
//verif:harness C11.find_nodes_reply unwind=60 timeout=60
//verif:use tableenv
//verif:param K=1/2 D=2/2
func vhC11FindNodesReply() {
	vhEnrBytes = map[*enr.Record][]byte{}
	vhTableNodes = nil
	vhEnrSizes = []int{1, 580}
	selfID := enode.ID(vsArr32("self"))
	self := vhAddTableNodeWithID(selfID) // tag 1 = the local record
	vmSelfNode = self
	tab := vhTable(self)
	tab.cfg.NoFindnodeLivenessCheck = vsBool("no-liveness-check")
	p := vhProto()
	p.table = tab
	p.localNode = new(enode.LocalNode)
	// the bucket that holds the entries
	bucketDist := []int{256, 240, 100}[vsChoose("bucket-distance", 3)]
	b := tab.bucketAtDistance(bucketDist)
	k := vsChoose("entries", vsParam("K")+1)
	live := make([]bool, k)
	var entries []*enode.Node
	for i := 0; i < k; i++ {
		n := vhAddTableNode(300)
		live[i] = vsBool("validated-live")
		b.entries = append(b.entries, &tableNode{Node: n, isValidatedLive: live[i]})
		entries = append(entries, n)
	}
	d := vsChoose("distances", vsParam("D")+1)
	raw := vsU16s("distance", d)
	req := &FindNodes{Distances: make([][2]byte, d)}
	for i := range raw {
		req.Distances[i] = [2]byte{byte(raw[i]), byte(raw[i] >> 8)} // little-endian uint16
	}
	reply, err := p.handleFindNodes(&net.UDPAddr{IP: net.IP{1, 2, 3, 4}}, req)
	vsAssert(err == nil, "answered")
	vsAssert(len(reply) <= maxPacketSize-talkRespOverhead, "reply-fits-one-packet")
	vsAssert(len(reply) >= 1 && reply[0] == NODES, "reply-is-nodes")
	var nodes Nodes
	vsAssert(nodes.UnmarshalSSZ(reply[1:]) == nil, "reply-decodes")
	vsAssert(nodes.Total == 1, "total-is-one")
	vsAssert(len(nodes.Enrs) <= 32, "at-most-32-records")
	wantSelf, wantBucket := false, false
	for i := range raw {
		if raw[i] == 0 {
			wantSelf = true
		}
		if raw[i] >= 1 && raw[i] <= 256 && tab.bucketAtDistance(int(raw[i])) == b {
			wantBucket = true
		}
	}
	used := make([]bool, len(vhTableNodes))
	for _, e := range nodes.Enrs {
		vsAssert(len(e) > 0 && int(e[0]) >= 1 && int(e[0]) <= len(vhTableNodes), "record-comes-from-this-node")
		ix := int(e[0]) - 1
		// (two requested distances can fall into the same catch-all bucket, whose entries are then
		// listed once per distance: the property does not forbid that, the asker drops repeats)
		used[ix] = true
		vsAssertBytesEq(e, vhEnrBytes[vhTableNodes[ix].Record()], "record-bytes-intact")
		g := vmNodes[vhTableNodes[ix]]
		vsAssert(g.ip != nil && g.relayOK, "only-relay-safe-records")
		if ix == 0 {
			vsAssert(wantSelf, "local-record-only-for-distance-zero")
			vsCover("self-record")
		} else {
			vsAssert(wantBucket, "entry-only-from-a-requested-bucket")
			vsAssert(live[ix-1] || tab.cfg.NoFindnodeLivenessCheck, "only-liveness-checked-entries")
			vsCover("bucket-entry")
		}
	}
	// completeness when nothing can be cut by size: all one-byte records
	small := true
	for _, n := range vhTableNodes {
		if len(vhEnrBytes[n.Record()]) != 1 {
			small = false
		}
	}
	if small {
		if wantSelf && vmNodes[self].ip != nil && vmNodes[self].relayOK {
			vsAssert(used[0], "requested-local-record-present")
		}
		for i := range entries {
			g := vmNodes[entries[i]]
			if wantBucket && (live[i] || tab.cfg.NoFindnodeLivenessCheck) && g.ip != nil && g.relayOK && used[i+1] {
				vsCover("eligible-entry-present") // observed; the property restricts what is listed
			}
		}
	}
	if d > 0 && raw[0] > 256 {
		vsCover("invalid-distance-ignored")
	}
}

// The NODES size budget for EVERY vector of record sizes: 1..K live, relay-safe entries in the
// requested bucket with records of any sizes 1..1200: the reply fits one packet, and when all
// records fit together all are listed.
//
//verif:harness C11.nodes_size_budget unwind=60 timeout=60
//verif:use tableenv
//verif:param K=3/5
func vhC11NodesSizeBudget() {
	vhEnrBytes = map[*enr.Record][]byte{}
	vhTableNodes = nil
	self := vhNodeWithID(0, nil, enode.ID(vsArr32("self")))
	vmSelfNode = self
	tab := vhTable(self)
	p := vhProto()
	p.table = tab
	p.localNode = new(enode.LocalNode)
	b := tab.bucketAtDistance(256)
	k := 1 + vsChoose("entries", vsParam("K"))
	sum := 0
	for i := 0; i < k; i++ {
		n := vhAddTableNodeSymSize(enode.ID(vsArr32("id")), 1200)
		vmNodes[n].ip = make(net.IP, 4)
		vmNodes[n].relayOK = true
		b.entries = append(b.entries, &tableNode{Node: n, isValidatedLive: true})
		sum += 4 + len(vhEnrBytes[n.Record()])
	}
	reply, err := p.handleFindNodes(&net.UDPAddr{IP: net.IP{1, 2, 3, 4}}, &FindNodes{Distances: [][2]byte{{0, 1}}})
	vsAssert(err == nil, "answered")
	budget := maxPacketSize - talkRespOverhead
	vsAssert(len(reply) <= budget, "reply-fits-one-packet")
	vsAssert(len(reply) >= 6, "reply-has-the-fixed-part")
	if 6+sum <= budget {
		if len(reply) == 6+sum {
			vsCover("all-records-listed-when-they-fit") // observed, not demanded by the property
		}
		vsCover("all-fit")
	} else {
		vsCover("cut-by-size")
	}
	if len(reply) == budget {
		vsCover("exactly-full")
	}
}

var vhNewNode *enode.Node
var vhNewFails bool

func vmEnodeNew(validSchemes enr.IdentityScheme, r *enr.Record) (*enode.Node, error) {
	if vhNewFails {
		return nil, vmErrLoad
	}
	return vhNewNode, nil
}

// Asking side: a record from a NODES reply is used only if it is validly signed (enode.New
// succeeds), passes the relay check, has a UDP port above 1024, lies at one of the requested
// distances from the responder and was not seen before in this reply. Each rule is its own
// assertion.
//
//verif:harness C11.verify_response unwind=40 timeout=60
//verif:use tableenv
//verif:model github.com/ethereum/go-ethereum/p2p/enode.New = vmEnodeNew
func vhC11VerifyResponse() {
	p := vhProto()
	sender := vhNode(0, nil)
	vmNodeIP(sender)
	rec := vhNode(0, nil)
	vmNodes[rec].udp = int(vsU16("udp-port"))
	vmNodeIP(rec)
	vhNewNode = rec
	vhNewFails = vsBool("invalid-signature")
	nd := vsChoose("distances", 3)
	var distances []uint
	if vsBool("distances-given") {
		distances = make([]uint, 0, nd)
		for i := 0; i < nd; i++ {
			distances = append(distances, uint(vsU16("distance")))
		}
	}
	seen := map[enode.ID]struct{}{}
	dup := vsBool("seen-before")
	if dup {
		seen[rec.ID()] = struct{}{}
	}
	n, err := p.verifyResponseNode(sender, &enr.Record{}, distances, seen)
	if err != nil {
		vsAssert(n == nil, "rejected-record-not-returned")
		vsCover("rejected")
		return
	}
	vsCover("accepted")
	vsAssert(n == rec, "the-decoded-node-is-returned")
	vsAssert(!vhNewFails, "accepted-only-if-validly-signed")
	vsAssert(vmNodes[rec].relayOK, "accepted-only-if-relay-check-passes")
	vsAssert(vmNodes[rec].udp > 1024, "accepted-only-if-port-above-1024")
	if distances != nil {
		d := uint(vmLogDist(sender.ID(), rec.ID()))
		ok := false
		for _, x := range distances {
			if x == d {
				ok = true
			}
		}
		vsAssert(ok, "accepted-only-at-a-requested-distance")
	}
	vsAssert(!dup, "accepted-only-if-not-a-repeat")
	_, marked := seen[rec.ID()]
	vsAssert(marked, "accepted-record-is-remembered")
}
