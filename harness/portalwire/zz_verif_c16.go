//go:build verif

package portalwire

import (
	"bytes"
	"net"

	"github.com/ethereum/go-ethereum/p2p/enode"
	"github.com/holiman/uint256"
)

func init() {
	vsRegister("C16.outbound_offer", vhC16OutboundOffer)
	vsRegister("C16.inbound_offer", vhC16InboundOffer)
	vsRegister("C16.gossip_queue", vhC16GossipQueue)
	vsRegister("C16.limit", vhC16Limit)
}

// Outbound: a slot taken for an offer is returned exactly once whatever happens: the offer cannot
// be encoded (65 keys), the peer is silent, the reply is empty / has the wrong code / does not
// decode / has the wrong verdict count / declines everything, the dial or the write fails, the
// transfer succeeds, or the node shuts down at any point of the transfer task.
//
//verif:harness C16.outbound_offer unwind=40 timeout=60
//verif:use offerenv
//verif:go after
//verif:ctx nondet
//verif:param L=8/8
func vhC16OutboundOffer() {
	ver := uint8(vsChoose("version", 2))
	limit := 1 + vsChoose("limit", 2)
	st := &vmStorage{radius: uint256.NewInt(0).SetAllOne()}
	p := vhOfferProto(limit, protocolVersions{ver}, st)
	peer := vhNode(0, []uint8{ver})
	k := []int{0, 1, 2, 65}[vsChoose("keys", 4)]
	req := vhOfferRequest(vsChoose("kind", 3), k)
	vmEnv.talkFails = vsBool("peer-silent")
	vmEnv.talkResp = vsBytes("reply", vsParam("L"))
	vmEnv.dialFails = vsBool("dial-fails")
	vmEnv.writeFails = vsBool("write-fails")

	permit, ok := p.Utp.GetOutboundPermit()
	vsAssert(ok, "slot-available")
	vsAssert(vhFreeSlots(p.Utp.GetOutboundPermit, limit) == limit-1, "one-slot-held")
	_, err := p.offer(peer, req, permit)
	started := vsPendingTasks() > 0
	vsRunTasks()
	vsAssert(vhFreeSlots(p.Utp.GetOutboundPermit, limit) == limit, "outbound-slot-returned")
	if err != nil {
		vsCover("offer-failed")
	}
	if started {
		vsCover("transfer-started")
		if !vmEnv.dialFails && !vmEnv.writeFails && vmEnv.written != nil {
			vsCover("transfer-written")
		}
	}
	if k == 65 && req.Kind != TransientOfferRequestWithResultKind {
		vsAssert(err != nil && vmEnv.talkRequests == 0, "oversized-offer-not-sent")
		vsCover("cannot-encode")
	}
}

// Inbound: the slot taken by handleOffer is returned when the transfer task ends: accept fails,
// read fails, stream malformed, success, or shutdown at any point.
//
//verif:harness C16.inbound_offer unwind=40 timeout=60
//verif:use offerenv
//verif:go after
//verif:ctx nondet
func vhC16InboundOffer() {
	ver := uint8(vsChoose("version", 2))
	limit := 1 + vsChoose("limit", 2)
	st := &vmStorage{radius: uint256.NewInt(0).SetAllOne()}
	p := vhOfferProto(limit, protocolVersions{ver}, st)
	peer := vhNode(0, []uint8{ver})
	vmEnv.cidSend = vsU16("cid")
	vmEnv.acceptFails = vsBool("accept-fails")
	vmEnv.readFails = vsBool("read-fails")
	vmEnv.stream = vsBytes("stream", 4)
	keys := [][]byte{vsBytesN("key", 32)}
	if vsBool("another-offer-admitted-during-the-wait") {
		vmEnv.concurrentTaker = p.Utp.GetInboundPermit
	}
	_, err := p.handleOffer(peer, &net.UDPAddr{}, &Offer{ContentKeys: keys})
	vsAssert(err == nil, "offer-answered")
	if vsPendingTasks() > 0 {
		vsAssert(vhFreeSlots(p.Utp.GetInboundPermit, limit) == limit-1, "slot-held-while-receiving")
		vsCover("receiving")
	}
	vsRunTasks()
	if vmEnv.concurrentOK {
		// the receive task released its slot early and again when it ended; the slot of the offer
		// admitted in between belongs to that offer until IT gives it back
		vsAssert(vhFreeSlots(p.Utp.GetInboundPermit, limit) == limit-1, "a-late-second-release-frees-nobody-elses-slot")
		vmEnv.concurrentPermit.Release()
		vsCover("another-offer-admitted")
	}
	vsAssert(vhFreeSlots(p.Utp.GetInboundPermit, limit) == limit, "inbound-slot-returned")
}

// vmCloseNodes: the k nodes nearest the content, all with a covering radius in the cache.
var vhGossipNodes []*enode.Node

func vmFindNodesCloseToContent(p *PortalProtocol, contentId []byte, limit int) []*enode.Node {
	return vhGossipNodes
}

// Gossip: a slot is taken per target; a request that cannot be queued must give its slot back,
// and after the queued requests have been processed every slot is free again.
//
//verif:harness C16.gossip_queue unwind=40 timeout=60
//verif:use offerenv
//verif:go after
//verif:model (*github.com/zen-eth/shisui/portalwire.PortalProtocol).findNodesCloseToContent = vmFindNodesCloseToContent
//verif:stub noop (github.com/zen-eth/shisui/portalwire.randomSource).Shuffle
func vhC16GossipQueue() {
	limit := 1 + vsChoose("limit", 3)
	st := &vmStorage{radius: uint256.NewInt(0).SetAllOne()}
	p := vhOfferProto(limit, protocolVersions{1}, st)
	n := 1 + vsChoose("targets", 3)
	vhGossipNodes = nil
	for i := 0; i < n; i++ {
		nd := vhNode(0, []uint8{1})
		id := [32]byte{byte(i + 1)}
		vsAssume(nd.ID() == enode.ID(id))
		vhGossipNodes = append(vhGossipNodes, nd)
		vmFCSet(p.radiusCache, []byte(nd.ID().String()), bytes.Repeat([]byte{0xff}, 32))
	}
	vmEnv.talkFails = true // peers are silent: every processed offer must still return its slot
	nodes, err := p.GossipAndReturnPeers(nil, [][]byte{{1}}, [][]byte{{2}})
	vsAssert(err == nil, "gossip-ok")
	queued := len(p.offerQueue)
	held := limit - vhFreeSlots(p.Utp.GetOutboundPermit, limit)
	vsAssert(held == queued, "slots-held-equal-requests-queued")
	// the offer worker processes what was queued
	for len(p.offerQueue) > 0 {
		r := <-p.offerQueue
		p.offer(r.Node, r.Request, r.permit)
	}
	vsRunTasks()
	vsAssert(vhFreeSlots(p.Utp.GetOutboundPermit, limit) == limit, "all-slots-free-after-quiescence")
	if len(nodes) > queued {
		vsCover("some-requests-dropped")
	}
	if queued > 0 {
		vsCover("some-requests-queued")
	}
}

// The controller never hands out more than the limit, for every limit 0..3 (real semaphore code).
//
//verif:harness C16.limit unwind=20
func vhC16Limit() {
	limit := vsChoose("limit", 4)
	c := newUtpController(limit)
	inTaken, outTaken := 0, 0
	var held []Permit
	for i := 0; i < 5; i++ {
		if pm, ok := c.GetInboundPermit(); ok {
			inTaken++
			held = append(held, pm)
		}
		if pm, ok := c.GetOutboundPermit(); ok {
			outTaken++
			held = append(held, pm)
		}
	}
	vsAssert(inTaken == limit && outTaken == limit, "exactly-limit-slots-per-direction")
	for _, pm := range held {
		pm.Release()
		pm.Release() // releasing twice gives back one slot only
	}
	vsAssert(vhFreeSlots(c.GetInboundPermit, limit) == limit && vhFreeSlots(c.GetOutboundPermit, limit) == limit, "release-once")
	if limit == 0 {
		vsCover("limit-zero")
	}
}
