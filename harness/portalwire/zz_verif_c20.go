//go:build verif

package portalwire

import (
	"bytes"

	"github.com/VictoriaMetrics/fastcache"
	"github.com/ethereum/go-ethereum/p2p/enode"
	"github.com/holiman/uint256"
	pingext "github.com/zen-eth/shisui/portalwire/ping_ext"
)

func init() {
	vsRegister("C20.gossip_targets", vhC20GossipTargets)
	vsRegister("C20.radius_cache", vhC20RadiusCache)
	vsRegister("C20.gossip_many", vhC20GossipMany)
}

type vmRandShuffle struct{}

// Gossip target selection over the k table nodes nearest the content (k = 0..K, already in
// non-decreasing log-distance order), each with a known or unknown radius (any 256-bit value),
// any source id (absent / one of the nodes / a stranger): at most 8 targets, never the source,
// never a node whose radius is unknown or does not cover the content; the first min(4,n) targets
// are the nearest covered nodes in order, the rest are other covered nodes, min(4, n-4) of them.
//
//verif:harness C20.gossip_targets unwind=80 timeout=60
//verif:use offerenv tablenodes logdist
//verif:model (*github.com/zen-eth/shisui/portalwire.reseedingRandom).Shuffle = vmShuffle
//verif:param K=5/6
func vhC20GossipTargets() {
	st := &vmStorage{radius: uint256.NewInt(0).SetAllOne()}
	p := vhOfferProto(16, protocolVersions{1}, st)
	p.offerQueue = make(chan *OfferRequestWithNode, 16)
	key := vsBytesN("key", 32)
	k := vsChoose("table-nodes", vsParam("K")+1)
	vhTableNodes = nil
	known := make([]bool, k)
	covers := make([]bool, k)
	for i := 0; i < k; i++ {
		// ids at concretely non-decreasing distance: key XOR (i+1) in the first byte
		var id enode.ID
		copy(id[:], key)
		id[0] ^= byte(i + 1)
		n := vhNodeWithID(0, []uint8{1}, id)
		vhTableNodes = append(vhTableNodes, n)
		if known[i] = vsBool("radius-known"); known[i] {
			r := vsBytesN("radius", 32) // SSZ (little-endian) as delivered in ping/pong payloads
			vmFCSet(p.radiusCache, []byte(n.ID().String()), r)
			// covered <=> BE(id XOR key) < radius ; id XOR key = (i+1) << 248
			rv := new(uint256.Int)
			vsAssume(rv.UnmarshalSSZ(r) == nil)
			dist := new(uint256.Int).Lsh(uint256.NewInt(uint64(i+1)), 248)
			covers[i] = rv.Gt(dist)
		}
	}
	var src *enode.ID
	srcIdx := -1
	switch vsChoose("source", 3) {
	case 1:
		if k > 0 {
			srcIdx = vsChoose("source-index", k)
			id := vhTableNodes[srcIdx].ID()
			src = &id
		}
	case 2:
		id := enode.ID(vsArr32("stranger"))
		for _, n := range vhTableNodes {
			vsAssume(n.ID() != id)
		}
		src = &id
	}
	targets, err := p.GossipAndReturnPeers(src, [][]byte{key}, [][]byte{{1}})
	vsAssert(err == nil, "gossip-ok")
	vsAssert(len(targets) <= 8, "at-most-eight-targets")
	// eligible nodes in distance order
	var eligible []int
	for i := 0; i < k; i++ {
		if known[i] && covers[i] && i != srcIdx {
			eligible = append(eligible, i)
		}
	}
	n := len(eligible)
	want := n
	if want > 8 {
		want = 8
	}
	// the four closest covered nodes are always targets; the others are "up to four"
	vsAssert(len(targets) >= min(4, n) && len(targets) <= want, "four-closest-plus-up-to-four-others")
	if len(targets) == want {
		vsCover("all-eligible-up-to-eight")
	}
	used := make([]bool, k)
	for ti, t := range targets {
		ix := -1
		for i, m := range vhTableNodes {
			if m == t {
				ix = i
			}
		}
		vsAssert(ix >= 0, "target-is-a-table-node")
		vsAssert(ix != srcIdx, "never-back-to-the-source")
		vsAssert(known[ix], "never-a-node-with-unknown-radius")
		vsAssert(covers[ix], "only-nodes-whose-radius-covers-the-content")
		vsAssert(!used[ix], "no-target-twice")
		used[ix] = true
		_ = ti
	}
	for q := 0; q < min(4, n); q++ {
		vsAssert(used[eligible[q]], "the-four-nearest-covered-nodes-are-targets")
	}
	if n > 4 {
		vsCover("more-than-four-covered")
	}
	if n > 8 {
		vsCover("more-than-eight-covered")
	}
	if srcIdx >= 0 && known[srcIdx] && covers[srcIdx] {
		vsCover("source-would-have-been-eligible")
	}
}

// vmShuffleAny: one arbitrary transposition of two arbitrary positions.
func vmShuffleAny(r *reseedingRandom, n int, swap func(i, j int)) {
	if n >= 2 {
		swap(vsChoose("shuffle-i", n), vsChoose("shuffle-j", n))
	}
}

// Many covered nodes: k = 5..K table nodes in distance order, every one with a radius that covers
// the content (all-ones), any source, any transposition by the shuffle: at most 8 targets, the
// first four are the four nearest in order, the others are distinct farther nodes, never the source.
//
//verif:harness C20.gossip_many unwind=80 timeout=60
//verif:use offerenv tablenodes logdist
//verif:model (*github.com/zen-eth/shisui/portalwire.reseedingRandom).Shuffle = vmShuffleAny
//verif:param K=13/15
func vhC20GossipMany() {
	st := &vmStorage{radius: uint256.NewInt(0).SetAllOne()}
	p := vhOfferProto(16, protocolVersions{1}, st)
	p.offerQueue = make(chan *OfferRequestWithNode, 16)
	key := vsBytesN("key", 32)
	k := 5 + vsChoose("table-nodes", vsParam("K")-4)
	vhTableNodes = nil
	ones := make([]byte, 32)
	for i := range ones {
		ones[i] = 0xff
	}
	for i := 0; i < k; i++ {
		// concretely increasing distances 16, 32, ... in the first byte: log-distances 253..256 (the
		// farthest nodes are at the maximum log-distance 256)
		var id enode.ID
		copy(id[:], key)
		id[0] ^= byte(16 * (i + 1))
		n := vhNodeWithID(0, []uint8{1}, id)
		vhTableNodes = append(vhTableNodes, n)
		vmFCSet(p.radiusCache, []byte(n.ID().String()), ones)
	}
	var src *enode.ID
	srcIdx := -1
	if vsBool("source-is-a-table-node") {
		srcIdx = vsChoose("source-index", k)
		id := vhTableNodes[srcIdx].ID()
		src = &id
	}
	targets, err := p.GossipAndReturnPeers(src, [][]byte{key}, [][]byte{{1}})
	vsAssert(err == nil, "gossip-ok")
	var eligible []int
	for i := 0; i < k; i++ {
		if i != srcIdx {
			eligible = append(eligible, i)
		}
	}
	vsAssert(len(targets) >= min(4, len(eligible)) && len(targets) <= min(8, len(eligible)), "four-closest-plus-up-to-four-others")
	used := make([]bool, k)
	for ti, t := range targets {
		ix := -1
		for i, m := range vhTableNodes {
			if m == t {
				ix = i
			}
		}
		vsAssert(ix >= 0, "target-is-a-table-node")
		vsAssert(ix != srcIdx, "never-back-to-the-source")
		vsAssert(!used[ix], "no-target-twice")
		used[ix] = true
		_ = ti
	}
	for q := 0; q < min(4, len(eligible)); q++ {
		vsAssert(used[eligible[q]], "the-four-nearest-covered-nodes-are-targets")
	}
	if len(eligible) > 8 {
		vsCover("more-than-eight-covered")
	}
}

// The radius used for a node is the one it most recently reported: after a PING or PONG carrying
// any supported payload type with radius r, the cache holds exactly r for that node (whatever it
// held before), decoded by the real ztyp payload codecs.
//
//verif:harness C20.radius_cache unwind=40 timeout=60
//verif:use offerenv
//verif:exec github.com/protolambda/ztyp/codec github.com/protolambda/ztyp/view github.com/protolambda/zrnt/eth2/beacon/common
//verif:stub havoc,nilable (*github.com/zen-eth/shisui/portalwire.PortalProtocol).RequestENR
//verif:stub havoc github.com/zen-eth/shisui/internal/version.VCS github.com/zen-eth/shisui/internal/version.ClientInfo
//verif:go after
//verif:model (*github.com/zen-eth/shisui/portalwire.Table).getNodeOrReplacement = vmGetNodeOrReplacement
func vhC20RadiusCache() {
	st := &vmStorage{radius: uint256.NewInt(0).SetAllOne()}
	p := vhOfferProto(1, protocolVersions{1}, st)
	p.capabilitiesCache = new(fastcache.Cache)
	p.ephemeralHeaderCountCache = new(fastcache.Cache)
	p.PingExtensions = HistoryPingExtension{}
	peer := vhNode(0, []uint8{1})
	vhKnownPeer = peer
	if vsBool("stale-entry") {
		vmFCSet(p.radiusCache, []byte(peer.ID().String()), vsBytesN("old-radius", 32))
	}
	radius := vsBytesN("radius", 32)
	var payload []byte
	var err error
	var typ uint16
	switch vsChoose("payload-type", 3) {
	case 0:
		typ = pingext.ClientInfo
		payload, err = pingext.NewClientInfoAndCapabilitiesPayload(radius, []uint16{0, 1}).MarshalSSZ()
	case 1:
		typ = pingext.HistoryRadius
		payload, err = pingext.NewHistoryRadiusPayload(radius, vsU16("count")).MarshalSSZ()
	default:
		typ = pingext.BasicRadius
		payload, err = pingext.NewBasicRadiusPayload(radius).MarshalSSZ()
	}
	vsAssume(err == nil)
	if vsBool("via-pong") {
		_, perr := p.processPongPayload(peer, &Pong{EnrSeq: 1, PayloadType: typ, Payload: payload})
		if !p.PingExtensions.IsSupported(typ) {
			vsAssert(perr != nil, "unsupported-type-rejected")
			vsCover("unsupported")
			return
		}
		vsAssert(perr == nil, "pong-processed")
		vsCover("pong")
	} else {
		resp, herr := p.handlePing(peer.ID(), &Ping{EnrSeq: 1, PayloadType: typ, Payload: payload})
		vsAssert(herr == nil && len(resp) > 0 && resp[0] == PONG, "ping-answered")
		vsRunTasks() // processPing runs asynchronously
		if !p.PingExtensions.IsSupported(typ) {
			vsCover("unsupported")
			return
		}
		vsCover("ping")
	}
	got, found := vmFCHasGet(p.radiusCache, nil, []byte(peer.ID().String()))
	vsAssert(found, "radius-cached")
	vsAssert(bytes.Equal(got, radius), "cache-holds-the-reported-radius")
}

var vhKnownPeer *enode.Node

func vmGetNodeOrReplacement(tab *Table, id enode.ID) *enode.Node {
	if vhKnownPeer != nil && vhKnownPeer.ID() == id {
		return vhKnownPeer
	}
	return nil
}
