//go:build verif

package portalwire

import (
	"context"
	"net"

	utp "github.com/zen-eth/utp-go"

	"github.com/ethereum/go-ethereum/p2p/enode"
)

// C01: no peer-controlled byte string makes the handling code panic; loops over the input exit.
// Every implicit Go failure (index/slice bounds, nil dereference, failed type assertion,
// division by zero, explicit panic) on any feasible path is reported by the executor.

// TALKREQ dispatch: any payload 0..L bytes; the per-message handlers behind the decoders are
// arbitrary (they have their own harnesses).
//
//verif:harness C01.talkreq_dispatch unwind=40
//verif:use node tablestub
//verif:stub havoc (*github.com/zen-eth/shisui/portalwire.PortalProtocol).handlePing (*github.com/zen-eth/shisui/portalwire.PortalProtocol).handleFindNodes (*github.com/zen-eth/shisui/portalwire.PortalProtocol).handleFindContent (*github.com/zen-eth/shisui/portalwire.PortalProtocol).handleOffer
//verif:param L=16/40
func vhC01TalkReqDispatch() {
	msg := vsBytes("msg", vsParam("L"))
	p := vhProto()
	resp := p.handleTalkRequest(new(enode.Node), &net.UDPAddr{}, msg)
	if resp != nil {
		vsCover("replied")
	} else {
		vsCover("no-reply")
	}
	if len(msg) == 0 {
		vsCover("empty-request")
	}
}

// Responses to our own requests: PONG / NODES / CONTENT / ACCEPT payloads of 0..L bytes.
// uTP, ENR decoding and the ping-extension (ztyp) decoders are arbitrary-outcome stubs.
//
//verif:group respenv
//verif:use node tablestub enr
//verif:stub havoc github.com/ethereum/go-ethereum/rlp.DecodeBytes github.com/ethereum/go-ethereum/p2p/netutil.CheckRelayIP
//verif:stub havoc,nilable github.com/ethereum/go-ethereum/p2p/enode.New
//verif:stub havoc (*github.com/zen-eth/shisui/portalwire.PortalProtocol).processPongPayload
//verif:stub havoc (*github.com/zen-eth/shisui/portalwire.UtpTransportService).DialWithCid
//verif:stub noop (*github.com/zen-eth/utp-go.UtpStream).Close
//verif:model (*github.com/zen-eth/utp-go.UtpStream).ReadToEOF = vmUtpReadToEOF
func vgRespEnv() {}

// vmUtpReadToEOF: the stream delivers arbitrary bytes (0..8) or fails.
func vmUtpReadToEOF(s *utp.UtpStream, ctx context.Context, data *[]byte) (int, error) {
	if vsChoose("utp-read-fails", 2) == 1 {
		return 0, vmErrLoad
	}
	*data = vsBytes("utp-data", 8)
	return len(*data), nil
}

//verif:harness C01.resp_pong unwind=40
//verif:use respenv
//verif:param L=20/48
func vhC01RespPong() {
	resp := vsBytes("resp", vsParam("L"))
	p := vhProto()
	pong, _, err := p.processPong(new(enode.Node), resp)
	if err == nil {
		vsAssert(pong != nil, "pong-or-error")
		vsCover("accepted")
	} else {
		vsCover("rejected")
	}
}

//verif:harness C01.resp_nodes unwind=40
//verif:use respenv
//verif:param L=12/16
func vhC01RespNodes() {
	resp := vsBytes("resp", vsParam("L"))
	p := vhProto()
	_, err := p.processNodes(new(enode.Node), resp, []uint{256, 255})
	if err == nil {
		vsCover("accepted")
	} else {
		vsCover("rejected")
	}
}

//verif:harness C01.resp_content unwind=40
//verif:use respenv
//verif:param L=14/20
func vhC01RespContent() {
	resp := vsBytes("resp", vsParam("L"))
	p := vhProto()
	p.Utp = &UtpTransportService{}
	_, _, err := p.processContent(new(enode.Node), resp)
	if err == nil {
		vsCover("accepted")
	} else {
		vsCover("rejected")
	}
	if len(resp) == 1 {
		vsCover("one-byte-response")
	}
}

type vmPermit struct{ released int }

func (p *vmPermit) Release() { p.released++ }

// ACCEPT responses (both encodings) against offers of 0..3 keys of each request kind.
//
//verif:harness C01.resp_offer unwind=80
//verif:use respenv
//verif:go drop
//verif:param L=8/8
func vhC01RespOffer() {
	resp := vsBytes("resp", vsParam("L"))
	ver := uint8(vsChoose("ver", 2))
	p := vhProto()
	n := vhNode(0, []uint8{ver})
	p.currentVersions = protocolVersions{ver}
	k := vsChoose("keys", 3)
	keys := make([][]byte, k)
	entries := make([]*ContentEntry, k)
	for i := range keys {
		keys[i] = []byte{byte(i)}
		entries[i] = &ContentEntry{ContentKey: keys[i], Content: []byte{1}}
	}
	var req *OfferRequest
	switch vsChoose("kind", 3) {
	case 0:
		req = &OfferRequest{Kind: TransientOfferRequestKind, Request: &TransientOfferRequest{Contents: entries}}
	case 1:
		req = &OfferRequest{Kind: PersistOfferRequestKind, Request: &PersistOfferRequest{ContentKeys: keys}}
	default:
		req = &OfferRequest{Kind: TransientOfferRequestWithResultKind, Request: &TransientOfferRequestWithResult{
			Content: &ContentEntry{ContentKey: []byte{1}, Content: []byte{2}}, Result: make(chan *OfferTrace, 1)}}
	}
	_, err := p.processOffer(n, resp, req, &vmPermit{})
	if err == nil {
		vsCover("accepted")
	} else {
		vsCover("rejected")
	}
}

// uTP stream body of an accepted offer: any bytes 0..L, 0..3 accepted keys.
//
//verif:harness C01.offered_contents unwind=60
//verif:param L=6/9
func vhC01OfferedContents() {
	payload := vsBytes("payload", vsParam("L"))
	k := vsChoose("keys", 4)
	keys := make([][]byte, k)
	for i := range keys {
		keys[i] = []byte{byte(i)}
	}
	p := vhProto()
	err := p.handleOfferedContents(enode.ID{}, keys, payload)
	if err == nil {
		vsCover("enqueued")
	} else {
		vsCover("discarded")
	}
}
