//go:build verif

package state

import (
	"bytes"

	"github.com/protolambda/zrnt/eth2/beacon/common"
	"github.com/protolambda/ztyp/codec"
)

func init() {
	vsRegister("C14.state_keys_value", vhC14StateKeysValue)
	vsRegister("C14.state_values_value", vhC14StateValuesValue)
	vsRegister("C14.state_canonical_keys", vhC14StateCanonicalKeys)
	vsRegister("C14.state_canonical_values", vhC14StateCanonicalValues)
}

type vhSSZ interface {
	Serialize(w *codec.EncodingWriter) error
	Deserialize(dr *codec.DecodingReader) error
}

func vhEnc(v vhSSZ) ([]byte, error) {
	var buf bytes.Buffer
	err := v.Serialize(codec.NewEncodingWriter(&buf))
	return buf.Bytes(), err
}

// the way storage.go / validation.go decode keys and values
func vhDec(v vhSSZ, b []byte) error {
	return v.Deserialize(codec.NewDecodingReader(bytes.NewReader(b), uint64(len(b))))
}

// vhNibblesVal: a valid path (FromUnpackedNibbles accepts it) of n nibbles, all symbolic.
func vhNibblesVal(n int) Nibbles {
	raw := vsBytesN("nibbles", n)
	for i := range raw {
		vsAssume(raw[i] <= 0xf)
	}
	return Nibbles{Nibbles: raw}
}

func vhNibblesEq(a, b Nibbles, id string) {
	vsAssert(len(a.Nibbles) == len(b.Nibbles), id+"-length")
	vsAssertBytesEq(a.Nibbles, b.Nibbles, id)
}

// State content keys: value -> bytes -> value for every valid key (paths of 0..64 nibbles, both
// parities); a path of 65 or 66 nibbles either fails to encode or is rejected by the decoder.
//
//verif:harness C14.state_keys_value unwind=140
//verif:exec github.com/protolambda/ztyp/codec github.com/protolambda/ztyp/view github.com/protolambda/zrnt/eth2/beacon/common bytes
func vhC14StateKeysValue() {
	n := []int{0, 1, 2, 3, 8, 63, 64, 65, 66}[vsChoose("nibbles", 9)]
	hash := common.Bytes32(vsArr32("hash"))
	over := n > 64
	switch vsChoose("type", 4) {
	case 0:
		v := vhNibblesVal(n)
		enc, err := vhEnc(&v)
		var d Nibbles
		if over {
			if err == nil {
				vsAssert(vhDec(&d, enc) != nil, "nibbles-over-limit-rejected")
			}
			vsCover("nibbles-over-limit")
			return
		}
		vsAssert(err == nil && len(enc) == n/2+1, "nibbles-encode")
		vsAssert(vhDec(&d, enc) == nil, "nibbles-decode")
		vhNibblesEq(d, v, "nibbles-round-trip")
	case 1:
		v := AccountTrieNodeKey{Path: vhNibblesVal(n), NodeHash: hash}
		enc, err := vhEnc(&v)
		var d AccountTrieNodeKey
		if over {
			if err == nil {
				vsAssert(vhDec(&d, enc) != nil, "account-key-over-limit-rejected")
			}
			return
		}
		vsAssert(err == nil, "account-key-encodes")
		vsAssert(vhDec(&d, enc) == nil, "account-key-decodes")
		vhNibblesEq(d.Path, v.Path, "account-key-path")
		vsAssert(d.NodeHash == hash, "account-key-hash")
		if n == 64 {
			vsCover("account-key-at-limit")
		}
	case 2:
		v := ContractStorageTrieNodeKey{AddressHash: common.Bytes32(vsArr32("addr-hash")), Path: vhNibblesVal(n), NodeHash: hash}
		enc, err := vhEnc(&v)
		var d ContractStorageTrieNodeKey
		if over {
			if err == nil {
				vsAssert(vhDec(&d, enc) != nil, "storage-key-over-limit-rejected")
			}
			return
		}
		vsAssert(err == nil, "storage-key-encodes")
		vsAssert(vhDec(&d, enc) == nil, "storage-key-decodes")
		vhNibblesEq(d.Path, v.Path, "storage-key-path")
		vsAssert(d.NodeHash == hash && d.AddressHash == v.AddressHash, "storage-key-hashes")
	default:
		if n != 0 {
			return
		}
		v := ContractBytecodeKey{AddressHash: common.Bytes32(vsArr32("addr-hash")), CodeHash: hash}
		enc, err := vhEnc(&v)
		var d ContractBytecodeKey
		vsAssert(err == nil && len(enc) == 64, "bytecode-key-encodes")
		vsAssert(vhDec(&d, enc) == nil && d == v, "bytecode-key-round-trip")
		vsAssert(vhDec(&d, enc[:63]) != nil, "bytecode-key-short-rejected")
		vsCover("bytecode-key")
	}
}

// State content values: value -> bytes -> value with node sizes at and just beyond 1024, proofs at
// and just beyond 65 nodes and bytecode at and just beyond 32768 bytes (sizes from fixed lists,
// contents symbolic).
//
//verif:harness C14.state_values_value unwind=140
//verif:exec github.com/protolambda/ztyp/codec github.com/protolambda/ztyp/view github.com/protolambda/zrnt/eth2/beacon/common bytes
func vhC14StateValuesValue() {
	hash := common.Bytes32(vsArr32("hash"))
	switch vsChoose("type", 4) {
	case 0:
		n := []int{0, 1, 33, 1023, 1024, 1025, 2048}[vsChoose("node-len", 7)]
		v := TrieNode{Node: EncodedTrieNode(vsBytesN("node", n))}
		enc, err := vhEnc(&v)
		var d TrieNode
		if n > MaxTrieNodeLength {
			if err == nil {
				vsAssert(vhDec(&d, enc) != nil, "trie-node-over-limit-rejected")
			}
			vsCover("trie-node-over-limit")
			return
		}
		vsAssert(err == nil, "trie-node-encodes")
		vsAssert(vhDec(&d, enc) == nil, "trie-node-decodes")
		vsAssertBytesEq(d.Node, v.Node, "trie-node-round-trip")
		if n == MaxTrieNodeLength {
			vsCover("trie-node-at-limit")
		}
	case 1:
		k := []int{0, 1, 2, 65, 66}[vsChoose("proof-nodes", 5)]
		n := []int{0, 1, 33, 1023, 1024, 1025, 2048}[vsChoose("node-len", 7)]
		proof := make(TrieProof, k)
		for i := range proof {
			proof[i] = EncodedTrieNode{byte(i)}
		}
		if k > 0 {
			proof[k-1] = EncodedTrieNode(vsBytesN("node", n))
		}
		v := AccountTrieNodeWithProof{Proof: proof, BlockHash: hash}
		enc, err := vhEnc(&v)
		var d AccountTrieNodeWithProof
		if k > MaxTrieProofLength || (k > 0 && n > MaxTrieNodeLength) {
			if err == nil {
				vsAssert(vhDec(&d, enc) != nil, "account-proof-over-limit-rejected")
			}
			vsCover("account-proof-over-limit")
			return
		}
		vsAssert(err == nil, "account-proof-encodes")
		vsAssert(vhDec(&d, enc) == nil, "account-proof-decodes")
		vsAssert(len(d.Proof) == k && d.BlockHash == hash, "account-proof-count-and-hash")
		if k > 0 {
			vsAssertBytesEq(d.Proof[k-1], proof[k-1], "account-proof-last-node")
		}
		if k > 1 {
			vsAssert(len(d.Proof[0]) == 1 && d.Proof[0][0] == 0, "account-proof-first-node")
		}
		if k == MaxTrieProofLength {
			vsCover("account-proof-at-limit")
		}
	case 2:
		ka := vsChoose("account-proof-nodes", 3)
		ks := vsChoose("storage-proof-nodes", 3)
		ap, sp := make(TrieProof, ka), make(TrieProof, ks)
		for i := range ap {
			ap[i] = EncodedTrieNode(vsBytesN("anode", 2*i+1))
		}
		for i := range sp {
			sp[i] = EncodedTrieNode(vsBytesN("snode", 3*i))
		}
		v := ContractStorageTrieNodeWithProof{StorageProof: sp, AccountProof: ap, BlockHash: hash}
		enc, err := vhEnc(&v)
		var d ContractStorageTrieNodeWithProof
		vsAssert(err == nil, "storage-proof-encodes")
		vsAssert(vhDec(&d, enc) == nil, "storage-proof-decodes")
		vsAssert(len(d.StorageProof) == ks && len(d.AccountProof) == ka && d.BlockHash == hash, "storage-proof-counts-and-hash")
		for i := range ap {
			vsAssertBytesEq(d.AccountProof[i], ap[i], "storage-proof-account-node")
		}
		for i := range sp {
			vsAssertBytesEq(d.StorageProof[i], sp[i], "storage-proof-storage-node")
		}
	default:
		n := []int{0, 1, 40, MaxContractBytecodeLength, MaxContractBytecodeLength + 1}[vsChoose("code-len", 5)]
		ka := vsChoose("account-proof-nodes", 3)
		ap := make(TrieProof, ka)
		for i := range ap {
			ap[i] = EncodedTrieNode(vsBytesN("anode", 2*i+1))
		}
		v := ContractBytecodeWithProof{Code: ContractByteCode(vsBytesN("code", n)), AccountProof: ap, BlockHash: hash}
		enc, err := vhEnc(&v)
		var d ContractBytecodeWithProof
		if n > MaxContractBytecodeLength {
			if err == nil {
				vsAssert(vhDec(&d, enc) != nil, "bytecode-over-limit-rejected")
			}
			vsCover("bytecode-over-limit")
			return
		}
		vsAssert(err == nil, "bytecode-encodes")
		vsAssert(vhDec(&d, enc) == nil, "bytecode-decodes")
		vsAssert(len(d.AccountProof) == ka && d.BlockHash == hash, "bytecode-proof-count-and-hash")
		vsAssertBytesEq(d.Code, v.Code, "bytecode-code")
		c := ContractBytecodeContainer{Code: v.Code}
		enc, err = vhEnc(&c)
		var dc ContractBytecodeContainer
		vsAssert(err == nil && vhDec(&dc, enc) == nil, "bytecode-container")
		vsAssertBytesEq(dc.Code, v.Code, "bytecode-container-code")
	}
}

func vhC14StateCanonical(m vhSSZ, name string) {
	b := vsBytes("b", vsParam("L"))
	if vhDec(m, b) != nil {
		vsCover("rejects")
		return
	}
	enc, err := vhEnc(m)
	vsAssert(err == nil, "decoded-value-re-encodes")
	vsAssertBytesEq(enc, b, "re-encoding-equals-input")
	vsCover("accepts-" + name)
}

// Canonical decoding of the state content keys: any accepted byte string re-encodes to itself.
//
//verif:harness C14.state_canonical_keys unwind=160
//verif:exec github.com/protolambda/ztyp/codec github.com/protolambda/ztyp/view github.com/protolambda/zrnt/eth2/beacon/common bytes
//verif:param L=70/80
func vhC14StateCanonicalKeys() {
	switch vsChoose("type", 4) {
	case 0:
		vhC14StateCanonical(&Nibbles{}, "Nibbles")
	case 1:
		vhC14StateCanonical(&AccountTrieNodeKey{}, "AccountTrieNodeKey")
	case 2:
		vhC14StateCanonical(&ContractStorageTrieNodeKey{}, "ContractStorageTrieNodeKey")
	default:
		vhC14StateCanonical(&ContractBytecodeKey{}, "ContractBytecodeKey")
	}
}

//verif:harness C14.state_canonical_values unwind=160
//verif:exec github.com/protolambda/ztyp/codec github.com/protolambda/ztyp/view github.com/protolambda/zrnt/eth2/beacon/common bytes
//verif:param L=52/60
func vhC14StateCanonicalValues() {
	switch vsChoose("type", 5) {
	case 0:
		vhC14StateCanonical(&TrieNode{}, "TrieNode")
	case 1:
		vhC14StateCanonical(&ContractBytecodeContainer{}, "ContractBytecodeContainer")
	case 2:
		vhC14StateCanonical(&AccountTrieNodeWithProof{}, "AccountTrieNodeWithProof")
	case 3:
		vhC14StateCanonical(&ContractStorageTrieNodeWithProof{}, "ContractStorageTrieNodeWithProof")
	default:
		vhC14StateCanonical(&ContractBytecodeWithProof{}, "ContractBytecodeWithProof")
	}
}
