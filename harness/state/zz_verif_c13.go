//go:build verif

package state

import (
	"bytes"

	"github.com/ethereum/go-ethereum/core/types"
	"github.com/ethereum/go-ethereum/crypto"
	"github.com/protolambda/zrnt/eth2/beacon/capella"
	"github.com/holiman/uint256"
	"github.com/protolambda/zrnt/eth2/beacon/common"
	"github.com/protolambda/ztyp/codec"
	"github.com/zen-eth/shisui/state/trie"
	"github.com/zen-eth/shisui/storage"
)

func init() {
	vsRegister("C13.node_proof", vhC13NodeProof)
	vsRegister("C13.store_last_node", vhC13StoreLastNode)
	vsRegister("C13.bytecode_binding", vhC13BytecodeBinding)
	vsRegister("C13.check_node_hash", vhC13CheckNodeHash)
	vsRegister("C13.storage_node_binding", vhC13StorageNodeBinding)
	vsRegister("C13.account_state_path", vhC13AccountStatePath)
}

// validateNodeTrieProof with keccak as an injective uninterpreted function and DecodeTrieNode as a
// table from raw proof bytes to nodes of symbolic shape: it returns nil only if the proof starts
// at the state root, every following node is the child the previous one references along the
// path, the path is fully consumed and the last node has the hash named in the key.
//
//verif:harness C13.node_proof unwind=40 timeout=60
//verif:uf,injective github.com/ethereum/go-ethereum/crypto.Keccak256
//verif:model github.com/zen-eth/shisui/state/trie.DecodeTrieNode = vmDecode
//verif:param N=2/3 KEY=1/2 PATH=2/3
func vhC13NodeProof() {
	trie.VhMaxKey = vsParam("KEY")
	n := vsChoose("proof-len", vsParam("N")+1) // 0..N nodes
	var proof TrieProof
	var nodes []*trie.VhNode
	for i := 0; i < n; i++ {
		raw := vsBytesN("raw", 4)
		proof = append(proof, EncodedTrieNode(raw))
		nodes = append(nodes, trie.VhNewNode(raw))
	}
	root := common.Bytes32(vsArr32("state-root"))
	nodeHash := common.Bytes32(vsArr32("key-node-hash"))
	pl := vsChoose("path-len", vsParam("PATH")+1)
	path := &Nibbles{Nibbles: make([]byte, pl)}
	for i := range path.Nibbles {
		path.Nibbles[i] = vsU8("path-nibble") & 15
	}
	err := validateNodeTrieProof(root, nodeHash, path, &proof)
	if err != nil {
		vsCover("rejected")
		return
	}
	vsCover("accepted")
	vsAssert(n >= 1, "empty-proof-rejected")
	vsAssert(bytes.Equal(crypto.Keccak256(proof[0]), root[:]), "proof-starts-at-the-state-root")
	rest := path.Nibbles
	for i := 0; i+1 < n; i++ {
		h, r, ok := nodes[i].RefStep(rest)
		vsAssert(ok, "each-node-continues-along-the-path")
		vsAssert(bytes.Equal(crypto.Keccak256(proof[i+1]), h), "next-node-is-the-referenced-child")
		rest = r
	}
	vsAssert(len(rest) == 0, "path-fully-consumed")
	vsAssert(bytes.Equal(crypto.Keccak256(proof[n-1]), nodeHash[:]), "last-node-has-the-key-hash")
	if n >= 2 {
		vsCover("multi-node-proof")
	}
}

// vmDecode: model of trie.DecodeTrieNode (the engine binds it by name; the result is the same
// interface value the real function would return for a registered raw node).
func vmDecode(hash, buf []byte) (any, error) {
	n, err := trie.VhDecode(buf)
	return n, err
}

type vmPutStore struct {
	key, val []byte
	puts     int
}

func (s *vmPutStore) Get(k, id []byte) ([]byte, error) { return nil, storage.ErrContentNotFound }
func (s *vmPutStore) Put(k, id, c []byte) error {
	s.puts++
	s.key, s.val = id, c
	return nil
}
func (s *vmPutStore) Radius() *uint256.Int { return uint256.NewInt(0) }
func (s *vmPutStore) Close() error         { return nil }

// Storage.Put of an account-trie-node item: what is stored is the serialisation of the LAST proof
// node and nothing else, and only if its hash is the one named in the key.
//
//verif:harness C13.store_last_node unwind=90 timeout=60
//verif:uf,injective github.com/ethereum/go-ethereum/crypto.Keccak256
//verif:exec github.com/protolambda/ztyp/codec github.com/protolambda/ztyp/view github.com/protolambda/zrnt/eth2/beacon/common
func vhC13StoreLastNode() {
	// a key and a content built from values, encoded by the real codecs
	key := &AccountTrieNodeKey{Path: Nibbles{Nibbles: []byte{vsU8("nibble") & 15}}, NodeHash: common.Bytes32(vsArr32("node-hash"))}
	n := 1 + vsChoose("proof-len", 2)
	var proof TrieProof
	for i := 0; i < n; i++ {
		proof = append(proof, EncodedTrieNode(vsBytesN("raw", 3)))
	}
	content := &AccountTrieNodeWithProof{Proof: proof, BlockHash: common.Bytes32(vsArr32("block-hash"))}
	var kb, cb bytes.Buffer
	vsAssume(key.Serialize(codec.NewEncodingWriter(&kb)) == nil)
	vsAssume(content.Serialize(codec.NewEncodingWriter(&cb)) == nil)
	st := &vmPutStore{}
	s := &Storage{store: st}
	id := vsBytesN("content-id", 32)
	err := s.Put(append([]byte{AccountTrieNodeType}, kb.Bytes()...), id, cb.Bytes())
	last := proof[n-1]
	if !bytes.Equal(crypto.Keccak256(last), key.NodeHash[:]) {
		vsAssert(err != nil && st.puts == 0, "wrong-final-hash-stores-nothing")
		vsCover("rejected")
		return
	}
	vsAssert(err == nil && st.puts == 1, "matching-item-stored-once")
	var want bytes.Buffer
	vsAssume((&TrieNode{Node: last}).Serialize(codec.NewEncodingWriter(&want)) == nil)
	vsAssert(bytes.Equal(st.val, want.Bytes()), "stored-value-is-the-last-node-only")
	vsAssert(bytes.Equal(st.key, id), "stored-under-the-content-id")
	vsCover("stored")
}

// ---- glue of the contract-storage and bytecode validators --------------------------------------

var vhErr13 = storage.ErrContentNotFound

// vmOracle13: the header source; records which block hash was asked for.
type vmOracle13 struct {
	asked [][]byte
	root  [32]byte
	fails bool
}

func (o *vmOracle13) GetHistoricalSummaries(epoch uint64) (capella.HistoricalSummaries, error) {
	return nil, vhErr13
}
func (o *vmOracle13) GetBlockHeaderByHash(hash []byte) (*types.Header, error) {
	o.asked = append(o.asked, append([]byte(nil), hash...))
	if o.fails {
		return nil, vhErr13
	}
	return &types.Header{Root: o.root}, nil
}
func (o *vmOracle13) GetFinalizedStateRoot() ([]byte, error) { return nil, vhErr13 }

// recorded calls of the two proof checkers (each has its own harness: node_proof, account_state_path)
var (
	vhAcctCalls []vhAcctCall
	vhAcct      *types.StateAccount
	vhAcctFails bool
	vhNodeCalls []vhNodeCall
	vhNodeFails bool
)

type vhAcctCall struct{ root, addr common.Bytes32 }
type vhNodeCall struct {
	root, hash common.Bytes32
	path       []byte
	proof      *TrieProof
}

func vmValidateAccountState(rootHash, addressHash common.Bytes32, proof *TrieProof) (*types.StateAccount, error) {
	vhAcctCalls = append(vhAcctCalls, vhAcctCall{rootHash, addressHash})
	if vhAcctFails {
		return nil, vhErr13
	}
	return vhAcct, nil
}

func vmValidateNodeTrieProof(rootHash, nodeHash common.Bytes32, path *Nibbles, proof *TrieProof) error {
	vhNodeCalls = append(vhNodeCalls, vhNodeCall{rootHash, nodeHash, append([]byte(nil), path.Nibbles...), proof})
	if vhNodeFails {
		return vhErr13
	}
	return nil
}

func vhSer(v interface {
	Serialize(w *codec.EncodingWriter) error
}) []byte {
	var b bytes.Buffer
	vsAssume(v.Serialize(codec.NewEncodingWriter(&b)) == nil)
	return b.Bytes()
}

// A bytecode item is accepted only if the account proven - under the state root of the header with
// the content's block hash, at the key's address hash - has the code hash named in the key.
//
//verif:harness C13.bytecode_binding unwind=90 timeout=60
//verif:exec github.com/protolambda/ztyp/codec github.com/protolambda/ztyp/view github.com/protolambda/zrnt/eth2/beacon/common
//verif:uf,injective github.com/ethereum/go-ethereum/crypto.Keccak256
//verif:model github.com/zen-eth/shisui/state.validateAccountState = vmValidateAccountState
func vhC13BytecodeBinding() {
	key := &ContractBytecodeKey{AddressHash: common.Bytes32(vsArr32("address-hash")), CodeHash: common.Bytes32(vsArr32("key-code-hash"))}
	content := &ContractBytecodeWithProof{Code: ContractByteCode(vsBytes("code", 3)), AccountProof: TrieProof{EncodedTrieNode(vsBytesN("raw", 2))}, BlockHash: common.Bytes32(vsArr32("block-hash"))}
	o := &vmOracle13{root: vsArr32("state-root"), fails: vsBool("no-header")}
	vhAcctCalls, vhAcctFails = nil, vsBool("account-proof-invalid")
	acctCode := vsBytesN("account-code-hash", 32)
	vhAcct = &types.StateAccount{CodeHash: acctCode, Root: vsArr32("storage-root")}
	v := &StateValidator{validationOracle: o}
	err := v.ValidateContent(append([]byte{ContractByteCodeType}, vhSer(key)...), vhSer(content))
	if err != nil {
		vsCover("rejected")
		return
	}
	vsCover("accepted")
	vsAssert(!o.fails && len(o.asked) == 1 && bytes.Equal(o.asked[0], content.BlockHash[:]), "header-is-the-one-of-the-contents-block-hash")
	vsAssert(!vhAcctFails && len(vhAcctCalls) == 1, "account-proof-checked")
	vsAssert(vhAcctCalls[0].root == common.Bytes32(o.root), "account-proven-under-that-headers-state-root")
	vsAssert(vhAcctCalls[0].addr == key.AddressHash, "account-proven-at-the-keys-address-hash")
	vsAssert(bytes.Equal(acctCode, key.CodeHash[:]), "proven-accounts-code-hash-equals-the-keys")
}

// A contract-storage trie node is accepted only if the account is proven under the header's state
// root at the key's address hash and the node proof is checked against THAT account's storage root
// with the key's path and node hash.
//
//verif:harness C13.storage_node_binding unwind=90 timeout=60
//verif:exec github.com/protolambda/ztyp/codec github.com/protolambda/ztyp/view github.com/protolambda/zrnt/eth2/beacon/common
//verif:uf,injective github.com/ethereum/go-ethereum/crypto.Keccak256
//verif:model github.com/zen-eth/shisui/state.validateAccountState = vmValidateAccountState
//verif:model github.com/zen-eth/shisui/state.validateNodeTrieProof = vmValidateNodeTrieProof
func vhC13StorageNodeBinding() {
	pl := vsChoose("path-len", 3)
	path := make([]byte, pl)
	for i := range path {
		path[i] = vsU8("nibble") & 15
	}
	key := &ContractStorageTrieNodeKey{AddressHash: common.Bytes32(vsArr32("address-hash")), Path: Nibbles{Nibbles: path}, NodeHash: common.Bytes32(vsArr32("node-hash"))}
	content := &ContractStorageTrieNodeWithProof{StorageProof: TrieProof{EncodedTrieNode(vsBytesN("sraw", 2))}, AccountProof: TrieProof{EncodedTrieNode(vsBytesN("araw", 3))}, BlockHash: common.Bytes32(vsArr32("block-hash"))}
	o := &vmOracle13{root: vsArr32("state-root"), fails: vsBool("no-header")}
	vhAcctCalls, vhAcctFails = nil, vsBool("account-proof-invalid")
	vhNodeCalls, vhNodeFails = nil, vsBool("node-proof-invalid")
	vhAcct = &types.StateAccount{CodeHash: vsBytesN("account-code-hash", 32), Root: vsArr32("storage-root")}
	v := &StateValidator{validationOracle: o}
	err := v.ValidateContent(append([]byte{ContractStorageTrieNodeType}, vhSer(key)...), vhSer(content))
	if err != nil {
		vsCover("rejected")
		return
	}
	vsCover("accepted")
	vsAssert(!o.fails && len(o.asked) == 1 && bytes.Equal(o.asked[0], content.BlockHash[:]), "header-is-the-one-of-the-contents-block-hash")
	vsAssert(!vhAcctFails && len(vhAcctCalls) == 1 && vhAcctCalls[0].root == common.Bytes32(o.root) && vhAcctCalls[0].addr == key.AddressHash, "account-proven-under-the-state-root-at-the-keys-address")
	vsAssert(!vhNodeFails && len(vhNodeCalls) == 1, "node-proof-checked")
	c := vhNodeCalls[0]
	vsAssert(c.root == common.Bytes32(vhAcct.Root), "node-proven-under-the-accounts-storage-root")
	vsAssert(c.hash == key.NodeHash && bytes.Equal(c.path, path), "node-proof-uses-the-keys-path-and-hash")
	vsAssert(len(*c.proof) == 1 && bytes.Equal((*c.proof)[0], content.StorageProof[0]), "node-proof-is-the-storage-proof")
}

var (
	vhTrieCalls []vhNodeCall
	vhTrieRest  []byte
	vhTrieLast  EncodedTrieNode
)

func vmValidateTrieProof(rootHash common.Bytes32, path []byte, proof *TrieProof) (EncodedTrieNode, []byte, error) {
	vhTrieCalls = append(vhTrieCalls, vhNodeCall{root: rootHash, path: append([]byte(nil), path...), proof: proof})
	if vsBool("trie-proof-invalid") {
		return nil, nil, vhErr13
	}
	return vhTrieLast, vhTrieRest, nil
}

// validateAccountState walks the account proof along the 64 nibbles of the address hash (high
// nibble first) under the given root, and fails when the walk fails.
//
//verif:harness C13.account_state_path unwind=90 timeout=60
//verif:model github.com/zen-eth/shisui/state.validateTrieProof = vmValidateTrieProof
//verif:model github.com/zen-eth/shisui/state/trie.DecodeTrieNode = vmDecode
//verif:stub havoc,nilable github.com/ethereum/go-ethereum/core/types.FullAccount
func vhC13AccountStatePath() {
	trie.VhMaxKey = 1
	root, addr := common.Bytes32(vsArr32("root")), common.Bytes32(vsArr32("address-hash"))
	vhTrieCalls = nil
	vhTrieLast = EncodedTrieNode(vsBytesN("raw", 4))
	trie.VhNewNode(vhTrieLast)
	vhTrieRest = []byte{vsU8("rest-nibble") & 15}
	proof := &TrieProof{vhTrieLast}
	_, err := validateAccountState(root, addr, proof)
	vsAssert(len(vhTrieCalls) == 1, "proof-walked-once")
	c := vhTrieCalls[0]
	vsAssert(c.root == root && c.proof == proof, "walk-starts-at-the-given-root-with-the-given-proof")
	vsAssert(len(c.path) == 64, "path-has-64-nibbles")
	for i := 0; i < 32; i++ {
		vsAssert(c.path[2*i] == addr[i]>>4 && c.path[2*i+1] == addr[i]&15, "path-is-the-address-hash-high-nibble-first")
	}
	if err == nil {
		vsCover("accepted")
	} else {
		vsCover("rejected")
	}
}

// checkNodeHash accepts a reference only if it is EXACTLY the 32-byte keccak of the node: a
// reference of any other length (0..40 bytes - e.g. the value a leaf hands back, which is what stops
// a proof from continuing past a leaf) is a mismatch, never truncated or padded.
//
//verif:harness C13.check_node_hash unwind=60
//verif:uf,injective github.com/ethereum/go-ethereum/crypto.Keccak256
func vhC13CheckNodeHash() {
	node := EncodedTrieNode(vsBytesN("raw", 3))
	ref := vsBytes("reference", 40)
	err := checkNodeHash(&node, ref)
	want := crypto.Keccak256(node)
	if err == nil {
		vsAssert(len(ref) == 32, "reference-is-exactly-32-bytes")
		vsAssert(bytes.Equal(ref, want), "reference-is-the-nodes-keccak")
		vsCover("accepted")
	} else {
		vsAssert(!bytes.Equal(ref, want), "matching-reference-accepted")
		vsCover("rejected")
	}
}
