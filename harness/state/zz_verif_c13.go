//go:build verif

package state

import (
	"bytes"

	"github.com/ethereum/go-ethereum/crypto"
	"github.com/holiman/uint256"
	"github.com/protolambda/zrnt/eth2/beacon/common"
	"github.com/protolambda/ztyp/codec"
	"github.com/zen-eth/shisui/state/trie"
	"github.com/zen-eth/shisui/storage"
)

func init() {
	vsRegister("C13.node_proof", vhC13NodeProof)
	vsRegister("C13.store_last_node", vhC13StoreLastNode)
}

// validateNodeTrieProof with keccak as an injective uninterpreted function and DecodeTrieNode as a
// table from raw proof bytes to nodes of symbolic shape: it returns nil only if the proof starts
// at the state root, every following node is the child the previous one references along the
// path, the path is fully consumed and the last node has the hash named in the key.
//
//verif:harness C13.node_proof unwind=40 timeout=60
//verif:uf,injective github.com/ethereum/go-ethereum/crypto.Keccak256
//verif:model github.com/zen-eth/shisui/state/trie.DecodeTrieNode = vmDecode
//verif:param N=2/3 KEY=1/2 PATH=2/3
func vhC13NodeProof() {
	trie.VhMaxKey = vsParam("KEY")
	n := vsChoose("proof-len", vsParam("N")+1) // 0..N nodes
	var proof TrieProof
	var nodes []*trie.VhNode
	for i := 0; i < n; i++ {
		raw := vsBytesN("raw", 4)
		proof = append(proof, EncodedTrieNode(raw))
		nodes = append(nodes, trie.VhNewNode(raw))
	}
	root := common.Bytes32(vsArr32("state-root"))
	nodeHash := common.Bytes32(vsArr32("key-node-hash"))
	pl := vsChoose("path-len", vsParam("PATH")+1)
	path := &Nibbles{Nibbles: make([]byte, pl)}
	for i := range path.Nibbles {
		path.Nibbles[i] = vsU8("path-nibble") & 15
	}
	err := validateNodeTrieProof(root, nodeHash, path, &proof)
	if err != nil {
		vsCover("rejected")
		return
	}
	vsCover("accepted")
	vsAssert(n >= 1, "empty-proof-rejected")
	vsAssert(bytes.Equal(crypto.Keccak256(proof[0]), root[:]), "proof-starts-at-the-state-root")
	rest := path.Nibbles
	for i := 0; i+1 < n; i++ {
		h, r, ok := nodes[i].RefStep(rest)
		vsAssert(ok, "each-node-continues-along-the-path")
		vsAssert(bytes.Equal(crypto.Keccak256(proof[i+1]), h), "next-node-is-the-referenced-child")
		rest = r
	}
	vsAssert(len(rest) == 0, "path-fully-consumed")
	vsAssert(bytes.Equal(crypto.Keccak256(proof[n-1]), nodeHash[:]), "last-node-has-the-key-hash")
	if n >= 2 {
		vsCover("multi-node-proof")
	}
}

// vmDecode: model of trie.DecodeTrieNode (the engine binds it by name; the result is the same
// interface value the real function would return for a registered raw node).
func vmDecode(hash, buf []byte) (any, error) {
	n, err := trie.VhDecode(buf)
	return n, err
}

type vmPutStore struct {
	key, val []byte
	puts     int
}

func (s *vmPutStore) Get(k, id []byte) ([]byte, error) { return nil, storage.ErrContentNotFound }
func (s *vmPutStore) Put(k, id, c []byte) error {
	s.puts++
	s.key, s.val = id, c
	return nil
}
func (s *vmPutStore) Radius() *uint256.Int { return uint256.NewInt(0) }
func (s *vmPutStore) Close() error         { return nil }

// Storage.Put of an account-trie-node item: what is stored is the serialisation of the LAST proof
// node and nothing else, and only if its hash is the one named in the key.
//
//verif:harness C13.store_last_node unwind=90 timeout=60
//verif:uf,injective github.com/ethereum/go-ethereum/crypto.Keccak256
//verif:exec github.com/protolambda/ztyp/codec github.com/protolambda/ztyp/view github.com/protolambda/zrnt/eth2/beacon/common
func vhC13StoreLastNode() {
	// a key and a content built from values, encoded by the real codecs
	key := &AccountTrieNodeKey{Path: Nibbles{Nibbles: []byte{vsU8("nibble") & 15}}, NodeHash: common.Bytes32(vsArr32("node-hash"))}
	n := 1 + vsChoose("proof-len", 2)
	var proof TrieProof
	for i := 0; i < n; i++ {
		proof = append(proof, EncodedTrieNode(vsBytesN("raw", 3)))
	}
	content := &AccountTrieNodeWithProof{Proof: proof, BlockHash: common.Bytes32(vsArr32("block-hash"))}
	var kb, cb bytes.Buffer
	vsAssume(key.Serialize(codec.NewEncodingWriter(&kb)) == nil)
	vsAssume(content.Serialize(codec.NewEncodingWriter(&cb)) == nil)
	st := &vmPutStore{}
	s := &Storage{store: st}
	id := vsBytesN("content-id", 32)
	err := s.Put(append([]byte{AccountTrieNodeType}, kb.Bytes()...), id, cb.Bytes())
	last := proof[n-1]
	if !bytes.Equal(crypto.Keccak256(last), key.NodeHash[:]) {
		vsAssert(err != nil && st.puts == 0, "wrong-final-hash-stores-nothing")
		vsCover("rejected")
		return
	}
	vsAssert(err == nil && st.puts == 1, "matching-item-stored-once")
	var want bytes.Buffer
	vsAssume((&TrieNode{Node: last}).Serialize(codec.NewEncodingWriter(&want)) == nil)
	vsAssert(bytes.Equal(st.val, want.Bytes()), "stored-value-is-the-last-node-only")
	vsAssert(bytes.Equal(st.key, id), "stored-under-the-content-id")
	vsCover("stored")
}
