//go:build verif

package state

import (
	"github.com/ethereum/go-ethereum/core/types"
	"github.com/holiman/uint256"
	"github.com/protolambda/zrnt/eth2/beacon/capella"
	"github.com/zen-eth/shisui/storage"
)

func init() {
	vsRegister("C01.state_storage_put", vhC01StateStoragePut)
	vsRegister("C01.state_validate_key", vhC01StateValidateKey)
}

type vmStore struct{ puts int }

var _ storage.ContentStorage = (*vmStore)(nil)

func (s *vmStore) Get(k, id []byte) ([]byte, error) { return nil, storage.ErrContentNotFound }
func (s *vmStore) Put(k, id, c []byte) error        { s.puts++; return nil }
func (s *vmStore) Radius() *uint256.Int             { return uint256.NewInt(0) }
func (s *vmStore) Close() error                     { return nil }

type vmOracle struct{}

func (o *vmOracle) GetHistoricalSummaries(epoch uint64) (capella.HistoricalSummaries, error) {
	return nil, vhErr
}
func (o *vmOracle) GetBlockHeaderByHash(hash []byte) (*types.Header, error) {
	if vsChoose("oracle-has-header", 2) == 1 {
		return &types.Header{Root: vsArr32("state-root")}, nil
	}
	return nil, vhErr
}
func (o *vmOracle) GetFinalizedStateRoot() ([]byte, error) { return nil, vhErr }

var vhErr = storage.ErrContentNotFound

// The state pipeline for offered / looked-up items (state/network.go): a peer-chosen key (0..K
// bytes) and content (0..L bytes) are validated and, only when the validator accepts them, handed
// to Storage.Put: the real ztyp decoders run on the symbolic bytes in both; keccak is an
// uninterpreted function, node decoding and account decoding have arbitrary outcomes.
//
//verif:harness C01.state_storage_put unwind=90
//verif:exec github.com/protolambda/ztyp/codec github.com/protolambda/ztyp/view github.com/protolambda/zrnt/eth2/beacon/common
//verif:uf github.com/ethereum/go-ethereum/crypto.Keccak256
//verif:stub havoc github.com/zen-eth/shisui/state/trie.DecodeTrieNode github.com/ethereum/go-ethereum/core/types.FullAccount
//verif:param K=70/72 L=44/52
func vhC01StateStoragePut() {
	key := vsBytes("key", vsParam("K"))
	content := vsBytes("content", vsParam("L"))
	v := &StateValidator{validationOracle: &vmOracle{}}
	if v.ValidateContent(key, content) != nil {
		vsCover("rejected-by-validator")
		return
	}
	s := &Storage{store: &vmStore{}}
	err := s.Put(key, vsBytesN("id", 32), content)
	if err != nil {
		vsCover("rejected-by-storage")
	} else {
		vsCover("stored")
	}
}

//verif:harness C01.state_validate_key unwind=90
//verif:exec github.com/protolambda/ztyp/codec github.com/protolambda/ztyp/view github.com/protolambda/zrnt/eth2/beacon/common
//verif:uf github.com/ethereum/go-ethereum/crypto.Keccak256
//verif:stub havoc github.com/zen-eth/shisui/state/trie.DecodeTrieNode github.com/ethereum/go-ethereum/core/types.FullAccount
//verif:param K=70/72 L=44/52
func vhC01StateValidateKey() {
	key := vsBytes("key", vsParam("K"))
	content := vsBytes("content", vsParam("L"))
	v := &StateValidator{validationOracle: &vmOracle{}}
	err := v.ValidateContent(key, content)
	if err != nil {
		vsCover("rejected")
	}
}
