//go:build verif

package trie

import "bytes"

func init() { vsRegister("C13.traverse_kernel", vhC13TraverseKernel) }

// TraverseTrieNode against the reference step on every node shape and every path of 0..3 nibbles:
// it succeeds with a child reference exactly when the reference says the node continues along the
// path, and then returns that reference and the unconsumed rest of the path.
//
//verif:harness C13.traverse_kernel unwind=40
func vhC13TraverseKernel() {
	raw := vsBytesN("raw", 1)
	d := VhNewNode(raw)
	path := vhNibbles("path", vsChoose("path-len", 4))
	n, _ := VhDecode(raw)
	got, rest, err := TraverseTrieNode(n, path)
	want, wrest, ok := d.RefStep(path)
	if d.Kind == 2 {
		// leaf: succeeds only for the exact key and hands back the value
		if err == nil {
			vsAssert(bytes.Equal(path, d.Key), "leaf-matches-only-its-own-key")
			vsAssert(bytes.Equal(got, d.Value), "leaf-returns-its-value")
			vsCover("leaf-hit")
		}
		return
	}
	vsAssert((err == nil) == ok, "continues-exactly-when-the-reference-does")
	if ok {
		vsAssert(bytes.Equal(got, want), "returns-the-referenced-child-hash")
		vsAssert(bytes.Equal(rest, wrest), "returns-the-unconsumed-path")
		vsCover("step")
	} else {
		vsCover("mismatch")
	}
}
