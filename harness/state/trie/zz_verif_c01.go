//go:build verif

package trie

func init() {
	vsRegister("C01.trie_decode_traverse", vhC01TrieDecodeTraverse)
	vsRegister("C01.trie_traverse_shapes", vhC01TrieTraverseShapes)
}

func vhPath(tag string, max int) []byte { return vhNibbles(tag, vsChoose(tag+"-len", max+1)) }

// A peer-supplied RLP trie node (any bytes 0..L) is decoded by the real decoder (including
// go-ethereum's rlp.Split*) and walked along any nibble path of length 0..P: no panic.
//
//verif:harness C01.trie_decode_traverse unwind=40 native
//verif:exec github.com/ethereum/go-ethereum/rlp
//verif:param L=5/6 P=1/2
func vhC01TrieDecodeTraverse() {
	buf := vsBytes("node", vsParam("L"))
	path := vhPath("path", vsParam("P"))
	n, err := DecodeTrieNode(nil, buf)
	if err != nil {
		vsCover("decode-rejects")
		return
	}
	vsCover("decodes")
	_, _, err = TraverseTrieNode(n, path)
	if err == nil {
		vsCover("traverses")
	}
}

func vhShape(depth int) node {
	switch vsChoose("shape", 5) {
	case 0:
		f := &fullNode{}
		idx := int(vsU8("child") & 15)
		if depth > 0 {
			f.Children[idx] = vhShape(depth - 1)
		} else {
			f.Children[idx] = hashNode(vsBytesN("h", 32))
		}
		return f
	case 1: // leaf: key = nibbles ++ [16]
		k := vhPath("leafkey", 2)
		return &shortNode{Key: append(k, 16), Val: valueNode(vsBytesN("val", 2))}
	case 2: // extension: key = 0..3 nibbles (the decoder can produce the empty key from 0x00)
		k := vhPath("extkey", 2)
		var child node = hashNode(vsBytesN("h", 32))
		if depth > 0 {
			child = vhShape(depth - 1)
		}
		return &shortNode{Key: k, Val: child}
	case 3:
		return hashNode(vsBytesN("h", 32))
	}
	return nil
}

// Traversal over node shapes the decoder can produce (full / leaf / extension / hash / nil, two
// levels deep), with ANY path of 0..4 nibbles.
//
//verif:harness C01.trie_traverse_shapes unwind=40
//verif:param D=0/1 P=3/4
func vhC01TrieTraverseShapes() {
	n := vhShape(vsParam("D"))
	path := vhPath("path", vsParam("P"))
	_, _, err := TraverseTrieNode(n, path)
	if err == nil {
		vsCover("ok")
	} else {
		vsCover("error")
	}
}
