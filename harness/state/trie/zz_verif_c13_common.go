//go:build verif

package trie

// Helpers that let the state-package harness build trie nodes of symbolic shape (the node types
// are unexported) and a reference walk that is independent of TraverseTrieNode.

// VhNode describes a decoded proof node of symbolic shape.
type VhNode struct {
	Kind   int    // 0 = branch, 1 = extension, 2 = leaf
	Child  byte   // branch: the one populated child slot (0..15); other slots are empty
	Key    []byte // extension / leaf: 0..2 nibbles (leaf: without the terminator)
	Target []byte // branch / extension: 32-byte hash of the referenced child
	Value  []byte // leaf value
	n      node
}

var vhDecodeTable = map[*byte]*VhNode{}

// VhMaxKey: longest extension / leaf key (in nibbles) of the symbolic shapes.
var VhMaxKey = 2

// VhNewNode registers a node of symbolic shape as the decoding of raw.
func VhNewNode(raw []byte) *VhNode {
	d := &VhNode{Kind: vsChoose("node-kind", 3)}
	switch d.Kind {
	case 0:
		d.Child = vsU8("child-slot") & 15
		d.Target = vsBytesN("child-hash", 32)
		f := &fullNode{}
		f.Children[d.Child] = hashNode(d.Target)
		d.n = f
	case 1:
		d.Key = vhNibbles("ext-key", vsChoose("ext-key-len", VhMaxKey+1))
		d.Target = vsBytesN("child-hash", 32)
		d.n = &shortNode{Key: d.Key, Val: hashNode(d.Target)}
	default:
		d.Key = vhNibbles("leaf-key", 1+vsChoose("leaf-key-len", VhMaxKey))
		d.Value = vsBytesN("leaf-value", 3)
		d.n = &shortNode{Key: append(append([]byte(nil), d.Key...), 16), Val: valueNode(d.Value)}
	}
	vhDecodeTable[&raw[0]] = d
	return d
}

func vhNibbles(tag string, n int) []byte {
	p := vsBytesN(tag, n)
	for i := 0; i < n; i++ {
		p[i] &= 15
	}
	return p
}

// VhDecode is the model of DecodeTrieNode for registered raw nodes.
func VhDecode(buf []byte) (node, error) {
	if len(buf) > 0 {
		if d := vhDecodeTable[&buf[0]]; d != nil {
			return d.n, nil
		}
	}
	return nil, ErrEmptyLeafKey
}

// RefStep: the reference semantics of one proof step: which child hash the node references along
// path and what remains of the path; ok=false when the node does not continue along path.
func (d *VhNode) RefStep(path []byte) (hash []byte, rest []byte, ok bool) {
	switch d.Kind {
	case 0:
		if len(path) == 0 || path[0] != d.Child {
			return nil, nil, false
		}
		return d.Target, path[1:], true
	case 1:
		if len(d.Key) == 0 || len(path) < len(d.Key) {
			return nil, nil, false
		}
		for i := range d.Key {
			if path[i] != d.Key[i] {
				return nil, nil, false
			}
		}
		return d.Target, path[len(d.Key):], true
	}
	return nil, nil, false // a leaf references no further node
}
