//go:build verif

package pebble

import (
	"bytes"
	"io"

	"github.com/cockroachdb/pebble"
	"github.com/holiman/uint256"
	"github.com/zen-eth/shisui/storage"
)

// ---------------------------------------------------------------------------------------------
// Contract model of pebble (DESIGN.md appendix B): a finite map from keys to values.
//   DB.Get            value of the entry with that key, else ErrNotFound (a fresh copy: the buffer
//                     lifetime clause of C04 is outside the model)
//   Batch.Set/Delete  recorded; Batch.Commit applies them in order ATOMICALLY and is the only
//                     crash point (C17); the commit log keeps (ops, sync flag)
//   NewIter           iterates a snapshot in descending key order (Last/Prev/Valid/Key/Value)
// ---------------------------------------------------------------------------------------------

type vmEntry struct {
	key, val []byte
}

type vmOp struct {
	del      bool
	rng      bool   // DeleteRange [key, end): the end key is exclusive (pebble's contract)
	end      []byte
	key, val []byte
}

type vmCommit struct {
	ops  []vmOp
	sync bool
}

type vmKV struct {
	live    []vmEntry // sorted ascending by key (bytes.Compare), keys distinct
	commits []vmCommit
	crashAt int // commit number after which the process dies (-1: never)
	dead    bool
	// onCommit is called at every commit boundary (= every state a crash can leave behind)
	onCommit func(kv *vmKV)
}

type vmBatchState struct {
	kv  *vmKV
	ops []vmOp
}

type vmIterState struct {
	snap []vmEntry
	pos  int
}

var (
	vmDBs     = map[*pebble.DB]*vmKV{}
	vmBatches = map[*pebble.Batch]*vmBatchState{}
	vmIters   = map[*pebble.Iterator]*vmIterState{}
)

//verif:group kv
//verif:model (*github.com/cockroachdb/pebble.DB).Get = vmDBGet
//verif:model (*github.com/cockroachdb/pebble.DB).NewBatch = vmDBNewBatch
//verif:model (*github.com/cockroachdb/pebble.DB).NewIter = vmDBNewIter
//verif:model (*github.com/cockroachdb/pebble.Batch).Set = vmBatchSet
//verif:model (*github.com/cockroachdb/pebble.Batch).Delete = vmBatchDelete
//verif:model (*github.com/cockroachdb/pebble.Batch).DeleteRange = vmBatchDeleteRange
//verif:model (*github.com/cockroachdb/pebble.Batch).Commit = vmBatchCommit
//verif:model (*github.com/cockroachdb/pebble.DB).Set = vmDBSet
//verif:model (*github.com/cockroachdb/pebble.DB).Delete = vmDBDelete
//verif:model (*github.com/cockroachdb/pebble.Iterator).Last = vmIterLast
//verif:model (*github.com/cockroachdb/pebble.Iterator).Prev = vmIterPrev
//verif:model (*github.com/cockroachdb/pebble.Iterator).Valid = vmIterValid
//verif:model (*github.com/cockroachdb/pebble.Iterator).Key = vmIterKey
//verif:model (*github.com/cockroachdb/pebble.Iterator).Value = vmIterValue
//verif:model (*github.com/cockroachdb/pebble.Iterator).Close = vmIterClose
//verif:stub noop (*github.com/cockroachdb/pebble.DB).Compact (*github.com/cockroachdb/pebble.DB).Close
//verif:stub noop (*github.com/holiman/uint256.Int).Float64
//verif:stub havoc github.com/ethereum/go-ethereum/metrics.Enabled github.com/ethereum/go-ethereum/metrics.GetOrRegisterGaugeFloat64 github.com/ethereum/go-ethereum/metrics.GetOrRegisterGauge github.com/ethereum/go-ethereum/metrics.GetOrRegisterCounter github.com/ethereum/go-ethereum/metrics.GetOrRegisterMeter github.com/ethereum/go-ethereum/metrics.NewRegisteredGaugeFloat64 github.com/ethereum/go-ethereum/metrics.NewRegisteredGauge github.com/ethereum/go-ethereum/metrics.NewRegisteredCounter github.com/ethereum/go-ethereum/metrics.NewRegisteredMeter
//verif:go drop
func vgKV() {}

type vmCloser struct{}

func (vmCloser) Close() error { return nil }

func vmDBGet(db *pebble.DB, key []byte) ([]byte, io.Closer, error) {
	kv := vmDBs[db]
	for _, e := range kv.live {
		if bytes.Equal(e.key, key) {
			out := make([]byte, len(e.val))
			copy(out, e.val)
			return out, vmCloser{}, nil
		}
	}
	return nil, nil, pebble.ErrNotFound
}

func vmDBNewBatch(db *pebble.DB) *pebble.Batch {
	b := new(pebble.Batch)
	vmBatches[b] = &vmBatchState{kv: vmDBs[db]}
	return b
}

func vmBatchSet(b *pebble.Batch, key, val []byte, _ *pebble.WriteOptions) error {
	st := vmBatches[b]
	st.ops = append(st.ops, vmOp{key: append([]byte(nil), key...), val: append([]byte(nil), val...)})
	return nil
}

func vmBatchDelete(b *pebble.Batch, key []byte, _ *pebble.WriteOptions) error {
	st := vmBatches[b]
	st.ops = append(st.ops, vmOp{del: true, key: append([]byte(nil), key...)})
	return nil
}

func vmBatchDeleteRange(b *pebble.Batch, start, end []byte, _ *pebble.WriteOptions) error {
	st := vmBatches[b]
	st.ops = append(st.ops, vmOp{rng: true, key: append([]byte(nil), start...), end: append([]byte(nil), end...)})
	return nil
}

func vmBatchCommit(b *pebble.Batch, o *pebble.WriteOptions) error {
	st := vmBatches[b]
	kv := st.kv
	if kv.dead {
		return vhErrCrashed
	}
	for _, op := range st.ops {
		kv.apply(op)
	}
	kv.commits = append(kv.commits, vmCommit{ops: st.ops, sync: o != nil && o.Sync})
	if kv.onCommit != nil {
		kv.onCommit(kv)
	}
	if kv.crashAt >= 0 && len(kv.commits) > kv.crashAt {
		kv.dead = true
	}
	return nil
}

// DB.Set / DB.Delete: a batch of one operation, i.e. a commit boundary of its own.
func vmDBSet(db *pebble.DB, key, val []byte, o *pebble.WriteOptions) error {
	b := vmDBNewBatch(db)
	vmBatchSet(b, key, val, o)
	return vmBatchCommit(b, o)
}

func vmDBDelete(db *pebble.DB, key []byte, o *pebble.WriteOptions) error {
	b := vmDBNewBatch(db)
	vmBatchDelete(b, key, o)
	return vmBatchCommit(b, o)
}

var vhErrCrashed = storage.ErrContentNotFound

func (kv *vmKV) apply(op vmOp) {
	if op.rng {
		var keep []vmEntry
		for _, e := range kv.live {
			if bytes.Compare(e.key, op.key) >= 0 && bytes.Compare(e.key, op.end) < 0 {
				continue
			}
			keep = append(keep, e)
		}
		kv.live = keep
		return
	}
	for i, e := range kv.live {
		c := bytes.Compare(e.key, op.key)
		if c == 0 {
			if op.del {
				kv.live = append(append([]vmEntry(nil), kv.live[:i]...), kv.live[i+1:]...)
			} else {
				kv.live[i] = vmEntry{key: op.key, val: op.val}
			}
			return
		}
		if c > 0 {
			if !op.del {
				rest := append([]vmEntry{{key: op.key, val: op.val}}, kv.live[i:]...)
				kv.live = append(append([]vmEntry(nil), kv.live[:i]...), rest...)
			}
			return
		}
	}
	if !op.del {
		kv.live = append(kv.live, vmEntry{key: op.key, val: op.val})
	}
}

func vmDBNewIter(db *pebble.DB, _ *pebble.IterOptions) (*pebble.Iterator, error) {
	it := new(pebble.Iterator)
	kv := vmDBs[db]
	vmIters[it] = &vmIterState{snap: append([]vmEntry(nil), kv.live...), pos: -1}
	return it, nil
}

func vmIterLast(it *pebble.Iterator) bool {
	st := vmIters[it]
	st.pos = len(st.snap) - 1
	return st.pos >= 0
}
func vmIterPrev(it *pebble.Iterator) bool {
	st := vmIters[it]
	if st.pos >= 0 {
		st.pos--
	}
	return st.pos >= 0
}
func vmIterValid(it *pebble.Iterator) bool {
	st := vmIters[it]
	return st.pos >= 0 && st.pos < len(st.snap)
}
func vmIterKey(it *pebble.Iterator) []byte   { st := vmIters[it]; return st.snap[st.pos].key }
func vmIterValue(it *pebble.Iterator) []byte { st := vmIters[it]; return st.snap[st.pos].val }
func vmIterClose(it *pebble.Iterator) error  { return nil }

// ---- harness helpers ---------------------------------------------------------------------------

// vhState: an arbitrary store state with n items (keys symbolic 32 bytes, strictly ascending, not
// the reserved all-zero size key; value lengths symbolic) plus the persisted size record.
type vhState struct {
	db     *pebble.DB
	kv     *vmKV
	keys   [][]byte
	vlens  []uint64
	record uint64 // persisted usage figure
}

var vhZeroKey = make([]byte, 32)

func vhMakeState(n int, maxVal uint64) *vhState {
	s := &vhState{db: new(pebble.DB), kv: &vmKV{crashAt: -1}}
	vmDBs[s.db] = s.kv
	s.record = vsU64("size-record")
	rec := make([]byte, 8)
	for i := 0; i < 8; i++ {
		rec[i] = byte(s.record >> uint(56-8*i))
	}
	s.kv.live = append(s.kv.live, vmEntry{key: vhZeroKey, val: rec})
	prev := vhZeroKey
	for i := 0; i < n; i++ {
		k := vsBytesN("key", 32)
		vsAssume(bytes.Compare(prev, k) < 0)
		ln := uint64(vsU32("vlen") & 0x1fffff) // value lengths are below 2^21 (assumed below)
		vsAssume(ln <= maxVal)
		s.kv.live = append(s.kv.live, vmEntry{key: k, val: vsBytesN("val", int(ln))})
		s.keys = append(s.keys, k)
		s.vlens = append(s.vlens, ln)
		prev = k
	}
	return s
}

// held: bytes actually present (32-byte key + value of every item; the size record is excluded,
// exactly as prune() counts).
func (kv *vmKV) held() uint64 {
	var sum uint64
	for _, e := range kv.live {
		if bytes.Equal(e.key, vhZeroKey) {
			continue
		}
		sum += uint64(len(e.key)) + uint64(len(e.val))
	}
	return sum
}

func (kv *vmKV) record() (uint64, bool) {
	for _, e := range kv.live {
		if bytes.Equal(e.key, vhZeroKey) && len(e.val) == 8 {
			var v uint64
			for i := 0; i < 8; i++ {
				v = v<<8 | uint64(e.val[i])
			}
			return v, true
		}
	}
	return 0, false
}

func (kv *vmKV) has(key []byte) bool {
	for _, e := range kv.live {
		if bytes.Equal(e.key, key) {
			return true
		}
	}
	return false
}

func vhStorage(s *vhState, nodeID [32]byte, capBytes uint64, radius *uint256.Int) *ContentStorage {
	cs := &ContentStorage{nodeId: nodeID, db: s.db, storageCapacityInBytes: capBytes, writeOptions: &pebble.WriteOptions{Sync: false}}
	cs.radius.Store(radius)
	cs.size.Store(s.record)
	return cs
}

// vhBE: a uint256 as 32 big-endian bytes.
// vhMaxDist: 2^256-1 as a fresh value (never the shared storage.MaxDistance variable, which code
// under test could have modified through an aliased pointer).
func vhMaxDist() *uint256.Int { return uint256.NewInt(0).SetAllOne() }

// vhSharedMaxIntact: the package-level storage.MaxDistance is shared by every store of the process
// and handed out as the initial radius; no operation may change it.
func vhSharedMaxIntact() {
	vsAssert(storage.MaxDistance.Eq(vhMaxDist()), "shared-maximum-distance-constant-unchanged")
}

func vhBE(x *uint256.Int) []byte { b := x.Bytes32(); return b[:] }

// vhByteSymmetric: the 32 bytes read the same forwards and backwards, i.e. their big-endian and
// little-endian readings are the same number (the region the known finding KF-C06-2 cannot touch).
func vhByteSymmetric(b []byte) bool {
	ok := true
	for i := 0; i < 16; i++ {
		if b[i] != b[31-i] {
			ok = false
		}
	}
	return ok
}

const vhCap = 1_000_000 // 1 MB: the capacity the repository's own tests use; 5% = 50_000

// vhPebblePruneStep: one pruning put from an arbitrary store state; readability of what is retained
// (C04) and, when radiusClauses is set, the radius clauses of C06.
func vhPebblePruneStep(radiusClauses bool) {
	n := 1 + vsChoose("items", vsParam("N"))
	s := vhMakeState(n, vhCap)
	node := vsArr32("node")
	vsAssume(s.record >= s.kv.held() && s.record <= vhCap)
	// the store is opened by the real NewStorage on that state (within capacity: no prune on open;
	// above 95% the radius is re-derived from the farthest item, otherwise it is the maximum)
	st, oerr := NewStorage(storage.PortalStorageConfig{StorageCapacityMB: 1, NodeId: node}, s.db)
	vsAssume(oerr == nil)
	cs := st.(*ContentStorage)
	id := vsBytesN("id", 32)
	vsAssume(!bytes.Equal(id, node[:]))
	ln := uint64(vsU32("len") & 0x1fffff) // lengths are below 2^21 (assumed below); narrow terms help the solver
	vsAssume(ln <= vhCap)
	err := cs.Put(nil, id, vsBytesN("content", int(ln)))
	if err != nil {
		return
	}
	vhSharedMaxIntact()
	// every item the store still holds stays readable, byte for byte, whatever the radius became
	for _, e := range s.kv.live {
		if bytes.Equal(e.key, vhZeroKey) {
			continue
		}
		got, gerr := cs.Get(nil, xor(e.key, node[:]))
		vsAssert(gerr == nil, "retained-item-stays-readable")
		vsAssertBytesEq(got, e.val, "retained-item-reads-back-unchanged")
	}
	if !radiusClauses {
		vsCover("put-done")
		return
	}
	r := cs.Radius()
	vsAssert(!r.Gt(vhMaxDist()), "radius-never-above-maximum")
	if r.Eq(vhMaxDist()) {
		vsCover("radius-unchanged")
		return
	}
	vsCover("radius-shrunk")
	rb := vhBE(r)
	symmetric := vhByteSymmetric(rb)
	for _, e := range s.kv.live {
		if bytes.Equal(e.key, vhZeroKey) {
			continue
		}
		if symmetric && vhByteSymmetric(e.key) {
			// the radius was read off a key that is the same in both byte orders, and so is this
			// item's distance (so its admission compared the right numbers): outside KF-C06-2
			vsAssert(bytes.Compare(e.key, rb) <= 0, "byte-symmetric-radius/retained-item-within-new-radius")
			vsCover("byte-symmetric-radius")
		} else {
			// Region of known finding KF-C06-2 (little-endian decoding of the key bytes).
			vsAssert(bytes.Compare(e.key, rb) <= 0, "retained-item-within-new-radius")
		}
	}
}
