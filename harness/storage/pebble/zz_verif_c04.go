//go:build verif

package pebble

import (
	"bytes"

	"github.com/holiman/uint256"
	"github.com/zen-eth/shisui/storage"
)

// C04 on a pruned store: whatever the store still holds after a pruning put reads back byte for byte
// (the same step as C06.pebble_radius, whose body asserts it).
//
//verif:harness C04.retained_readable_after_prune unwind=60 timeout=240/600 wall=1200/3600
//verif:use kv
//verif:param N=2/3
func vhC04RetainedReadable() { vhPebblePruneStep(false) }

func init() {
	vsRegister("C04.retained_readable_after_prune", vhC04RetainedReadable)
	vsRegister("C04.put_get_step", vhC04PutGetStep)
	vsRegister("C04.key_injective", vhC04KeyInjective)
}

// One put from an arbitrary store state (0..N items), then gets: the item just put is returned
// intact, every other id returns what it returned before, a refused put changes nothing.
//
//verif:harness C04.put_get_step unwind=40 timeout=240/600 wall=1200/3600
//verif:use kv
//verif:param N=2/3
func vhC04PutGetStep() {
	n := vsChoose("items", vsParam("N")+1)
	s := vhMakeState(n, 1<<20)
	node := vsArr32("node")
	// capacity far away: no prune in this harness (C05 covers pruning)
	cs := vhStorage(s, node, 1<<62, uint256.NewInt(0).SetAllOne())
	vsAssume(s.record < 1<<40)
	id := vsBytesN("id", 32)
	other := vsBytesN("other", 32)
	vsAssume(!bytes.Equal(id, other))
	vsAssume(!bytes.Equal(id, node[:]) && !bytes.Equal(other, node[:])) // the node's own id maps to the size key
	ln := vsInt("len")
	vsAssume(ln >= 0 && ln <= 1<<20)
	content := vsBytesN("content", ln)

	before, berr := cs.Get(nil, other)
	err := cs.Put(nil, id, content)
	if bytes.Equal(xor(id, node[:]), vhBE(uint256.NewInt(0).SetAllOne())) {
		// the maximum distance is not below the maximum radius: refused, and nothing changes
		vsAssert(err == storage.ErrInsufficientRadius, "max-distance-refused")
		_, gerr := cs.Get(nil, id)
		vsAssert(gerr == storage.ErrContentNotFound || n > 0, "refused-put-stores-nothing")
		vsCover("refused")
		return
	}
	vsAssert(err == nil, "in-radius-put-accepted")
	got, gerr := cs.Get(nil, id)
	vsAssert(gerr == nil, "get-after-put-finds-it")
	vsAssertBytesEq(got, content, "get-after-put-returns-the-bytes-put")
	after, aerr := cs.Get(nil, other)
	vsAssert((berr == nil) == (aerr == nil), "other-id-presence-unchanged")
	if berr == nil {
		vsAssertBytesEq(after, before, "other-id-value-unchanged")
		vsCover("other-present")
	} else {
		vsAssert(berr == storage.ErrContentNotFound, "absent-is-not-found")
		vsCover("other-absent")
	}
	if ln == 0 {
		vsCover("empty-value")
	}
}

// The key derivation is injective on 32-byte ids and never hits the reserved size key except for
// the node's own id.
//
//verif:harness C04.key_injective unwind=40
func vhC04KeyInjective() {
	node := vsArr32("node")
	a, b := vsBytesN("a", 32), vsBytesN("b", 32)
	ka, kb := xor(a, node[:]), xor(b, node[:])
	vsAssert(len(ka) == 32 && len(kb) == 32, "keys-are-32-bytes")
	vsAssert(bytes.Equal(ka, kb) == bytes.Equal(a, b), "distinct-ids-distinct-keys")
	vsAssert(bytes.Equal(ka, storage.SizeKey) == bytes.Equal(a, node[:]), "only-own-id-maps-to-size-key")
	for i := 0; i < 32; i++ {
		vsAssert(ka[i] == a[i]^node[i], "key-is-xor")
	}
	if bytes.Equal(a, b) {
		vsCover("same")
	} else {
		vsCover("different")
	}
}
