//go:build verif

package pebble

import (
	"bytes"

	"github.com/holiman/uint256"
	"github.com/zen-eth/shisui/storage"
)

func init() {
	vsRegister("C17.commit_boundaries", vhC17CommitBoundaries)
	vsRegister("C17.reopen", vhC17Reopen)
}

// Crash points at batch granularity: pebble's contract is that recovery yields a prefix of the
// committed batches, each applied atomically. At EVERY commit boundary of a Put (the item batch,
// then the synced prune batch) the persisted state must satisfy: the usage figure is not below
// the bytes present, and every value present under an id is byte-identical to a value that was
// put under it. The process may also die right after any commit (later commits are lost).
//
//verif:harness C17.commit_boundaries unwind=60 timeout=240/600 wall=1200/3600
//verif:use kv
//verif:param N=2/3
func vhC17CommitBoundaries() {
	n := vsChoose("items", vsParam("N")+1)
	s := vhMakeState(n, vhCap)
	node := vsArr32("node")
	cs := vhStorage(s, node, vhCap, uint256.NewInt(0).SetAllOne())
	vsAssume(s.record >= s.kv.held() && s.record <= vhCap)
	id := vsBytesN("id", 32)
	vsAssume(!bytes.Equal(id, node[:]))
	ln := uint64(vsU32("len") & 0x1fffff) // lengths are below 2^21 (assumed below); narrow terms help the solver
	vsAssume(ln <= 2*vhCap)
	content := vsBytesN("content", int(ln))
	key := xor(id, node[:])
	// snapshot of the values before the put
	old := append([]vmEntry(nil), s.kv.live...)

	boundaries := 0
	s.kv.onCommit = func(kv *vmKV) {
		boundaries++
		rec, ok := kv.record()
		vsAssert(ok, "size-record-present-at-commit-boundary")
		vsAssert(rec >= kv.held(), "persisted-figure-not-below-bytes-present-at-commit-boundary")
		for _, e := range kv.live {
			if bytes.Equal(e.key, vhZeroKey) {
				continue
			}
			if bytes.Equal(e.key, key) {
				// the new value, or (cannot happen within one put) the old one
				vsAssertBytesEq(e.val, content, "value-under-the-put-id-is-the-value-put")
				continue
			}
			found := false
			for _, o := range old {
				if bytes.Equal(o.key, e.key) {
					found = true
					vsAssertBytesEq(e.val, o.val, "other-values-untouched")
				}
			}
			vsAssert(found, "no-item-appears-from-nowhere")
		}
	}
	s.kv.crashAt = vsChoose("crash-after-commit", 3) - 1 // never, after the 1st, after the 2nd
	err := cs.Put(nil, id, content)
	if err == storage.ErrInsufficientRadius {
		vsAssert(boundaries == 0, "refused-put-commits-nothing")
		return
	}
	if boundaries == 2 {
		vsAssert(s.kv.commits[1].sync, "prune-batch-is-synced")
		vsCover("item-batch-then-prune-batch")
	}
	if boundaries == 1 {
		vsCover("item-batch-only")
	}
	vsAssert(boundaries >= 1, "accepted-put-commits")
}

// Reopen from ANY persisted state that satisfies the commit-boundary invariant: opening
// succeeds; an over-capacity store is pruned once on open; the radius is the maximum when the
// persisted figure is at most 95% of the capacity and otherwise the distance of the farthest
// retained item (decoded the same way admission decodes distances).
//
//verif:harness C17.reopen unwind=60 timeout=240/600 wall=1200/3600
//verif:use kv
//verif:param N=2/3
func vhC17Reopen() {
	n := vsChoose("items", vsParam("N")+1)
	s := vhMakeState(n, 2*vhCap)
	vsAssume(s.record >= s.kv.held())
	vsAssume(s.record <= 8*vhCap)
	if vsChoose("fresh-db", 2) == 1 && n == 0 {
		s.kv.live = nil // a store that was never written: no size record
	}
	node := vsArr32("node")
	st, err := NewStorage(storage.PortalStorageConfig{StorageCapacityMB: 1, NodeId: node}, s.db)
	vsAssert(err == nil && st != nil, "reopen-succeeds")
	cs := st.(*ContentStorage)
	vhSharedMaxIntact()
	if len(s.kv.live) == 0 {
		vsAssert(cs.Radius().Eq(vhMaxDist()), "fresh-store-has-maximum-radius")
		if len(s.kv.commits) == 0 {
			vsCover("fresh-open-writes-nothing")
		}
		vsCover("fresh")
		return
	}
	if s.record > vhCap {
		vsAssert(len(s.kv.commits) >= 1, "over-capacity-store-pruned-on-open")
		rec, _ := s.kv.record()
		vsAssert(rec >= s.kv.held(), "figure-not-below-bytes-present-after-open")
		vsCover("pruned-on-open")
	} else {
		for _, k := range s.keys {
			vsAssert(s.kv.has(k), "within-capacity-store-loses-nothing-on-open")
		}
	}
	if s.record <= vhCap/100*95 {
		vsAssert(cs.Radius().Eq(vhMaxDist()), "at-most-95-percent-full-keeps-maximum-radius")
		vsCover("below-95-percent")
		return
	}
	// more than 95% full: radius = decode(farthest retained key)
	var far []byte
	for _, e := range s.kv.live {
		if !bytes.Equal(e.key, vhZeroKey) {
			far = e.key // live is ascending: the last one is the farthest
		}
	}
	if far == nil {
		vsCover("over-95-percent-but-empty")
		return
	}
	// "the distance of the farthest retained item": as the store reads key bytes today
	// (little-endian, known finding KF-C06-2) or as the metric defines them (big-endian) - a repair
	// of that finding must not turn this check into an alarm
	want := uint256.NewInt(0)
	vsAssert(want.UnmarshalSSZ(far) == nil, "key-decodes")
	wantBE := new(uint256.Int).SetBytes(far)
	vsAssert(cs.Radius().Eq(want) || cs.Radius().Eq(wantBE), "radius-rederived-from-farthest-retained-item")
	vsCover("radius-rederived")
}
