//go:build verif

package pebble

import (
	"bytes"

	"github.com/holiman/uint256"
	"github.com/zen-eth/shisui/storage"
)

func init() {
	vsRegister("C05.put_step", vhC05PutStep)
	vsRegister("C06.pebble_radius", vhC06PebbleRadius)
	vsRegister("C06.pebble_admission", vhC06PebbleAdmission)
}

// Inductive step of C05: from ANY store state with 0..N items in which the bytes held are within
// the capacity and the usage figure does not under-report, one Put of an arbitrary item leaves
// (1) the usage figure (in memory and persisted) not below the bytes held,
// (2) if it pruned: only a farthest-first prefix removed, at least 5% of the capacity freed or
//
//	everything removed,
//
// (3) with items no larger than 5% of the capacity: bytes held within the capacity.
//
//verif:harness C05.put_step unwind=60 timeout=240/600 wall=1200/3600
//verif:use kv
//verif:param N=2/3
func vhC05PutStep() {
	n := vsChoose("items", vsParam("N")+1)
	s := vhMakeState(n, vhCap)
	node := vsArr32("node")
	cs := vhStorage(s, node, vhCap, uint256.NewInt(0).SetAllOne())
	heldBefore := s.kv.held()
	vsAssume(heldBefore <= vhCap)    // invariant: within capacity
	vsAssume(s.record >= heldBefore) // invariant: never under-reports
	vsAssume(s.record <= vhCap)      // a put that returned left the counter within capacity
	id := vsBytesN("id", 32)
	vsAssume(!bytes.Equal(id, node[:]))
	ln := uint64(vsU32("len") & 0x1fffff) // lengths are below 2^21 (assumed below); narrow terms help the solver
	vsAssume(ln <= 2*vhCap)
	content := vsBytesN("content", int(ln))
	key := xor(id, node[:])
	overwrite := s.kv.has(key)

	err := cs.Put(nil, id, content)
	if err == storage.ErrInsufficientRadius {
		vsCover("refused")
		return
	}
	vsAssert(err == nil, "put-succeeds")
	held := s.kv.held()
	rec, ok := s.kv.record()
	vsAssert(ok, "size-record-present")
	vsAssert(rec >= held, "usage-figure-never-under-reports")
	vsAssert(cs.size.Load() >= held, "in-memory-usage-figure-never-under-reports")
	if rec == cs.size.Load() {
		vsCover("persisted-figure-equals-counter")
	}

	// which of the old items are gone, which survive
	removed, kept := 0, 0
	var freed uint64
	for i, k := range s.keys {
		if s.kv.has(k) {
			kept++
			// farthest-first: a surviving old item is not farther than any removed one
			for j := i + 1; j < len(s.keys); j++ {
				_ = j
			}
		} else if !(overwrite && bytes.Equal(k, key)) {
			removed++
			freed += 32 + s.vlens[i]
		}
	}
	newPresent := s.kv.has(key)
	if !newPresent {
		freed += 32 + ln
	}
	pruned := removed > 0 || !newPresent
	if pruned {
		// farthest-first prefix: every removed key is above every kept key
		for i, k := range s.keys {
			if s.kv.has(k) {
				for j := 0; j < i; j++ {
					vsAssert(s.kv.has(s.keys[j]) || (overwrite && bytes.Equal(s.keys[j], key)), "kept-item-has-no-nearer-removed-item")
				}
				if !newPresent {
					vsAssert(bytes.Compare(k, key) < 0, "kept-item-nearer-than-removed-new-item")
				}
			} else if newPresent && !(overwrite && bytes.Equal(k, key)) {
				vsAssert(bytes.Compare(k, key) > 0, "removed-item-farther-than-kept-new-item")
			}
		}
		everything := kept == 0 && !newPresent
		vsAssert(freed >= vhCap/20 || everything, "prune-frees-5-percent-or-everything")
		vsCover("pruned")
	} else {
		vsCover("not-pruned")
	}
	if 32+ln <= vhCap/20 { // item size = 32-byte id + value, as the store counts it
		vsAssert(held <= vhCap, "held-within-capacity-after-put")
	}
	if overwrite {
		vsCover("overwrite")
	}
	vhSharedMaxIntact()
}

// C06 on the store: (b) a put is refused for insufficient radius only when the big-endian XOR
// distance is not below the advertised radius; for an arbitrary advertised radius.
//
//verif:harness C06.pebble_admission unwind=40
//verif:use kv
func vhC06PebbleAdmission() {
	s := vhMakeState(0, 0)
	node := vsArr32("node")
	rb := vsArr32("radius")
	radius := new(uint256.Int).SetBytes32(rb[:])
	cs := vhStorage(s, node, 1<<62, radius)
	vsAssume(s.record < 1<<40)
	id := vsBytesN("id", 32)
	err := cs.Put(nil, id, vsBytesN("content", 1))
	dist := xor(id, node[:])
	below := bytes.Compare(dist, rb[:]) < 0
	if radius.Eq(vhMaxDist()) {
		vsAssert((err == storage.ErrInsufficientRadius) == !below, "max-radius/refused-iff-distance-not-below-radius")
		vsCover("max-radius")
	} else if vhByteSymmetric(dist) {
		// a distance that reads the same in both byte orders is outside known finding KF-C06-2
		vsAssert((err == storage.ErrInsufficientRadius) == !below, "shrunk-radius/byte-symmetric-distance/refused-iff-distance-not-below-radius")
		vsCover("byte-symmetric-distance")
	} else {
		// Region of known finding KF-C06-2: the store decodes key bytes little-endian.
		vsAssert((err == storage.ErrInsufficientRadius) == !below, "shrunk-radius/refused-iff-distance-not-below-radius")
	}
}

// C06 on the store: (c) after a put that pruned, every retained item lies within the new radius
// (big-endian XOR distance <= radius) and the radius did not grow.
//
//verif:harness C06.pebble_radius unwind=60 timeout=240/600 wall=1200/3600
//verif:use kv
//verif:param N=2/3
func vhC06PebbleRadius() { vhPebblePruneStep(true) }
