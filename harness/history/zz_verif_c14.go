//go:build verif

package history

func init() {
	vsRegister("C14.histpkg_bodies_value", vhC14BodiesValue)
	vsRegister("C14.histpkg_fixed_value", vhC14FixedValue)
	vsRegister("C14.histpkg_canonical", vhC14HistPkgCanonical)
}

type vhC14Codec interface {
	MarshalSSZ() ([]byte, error)
	UnmarshalSSZ([]byte) error
}

func vhC14Items(tag string, k int) [][]byte {
	out := make([][]byte, k)
	for i := range out {
		out[i] = vsBytesN(tag, []int{0, 1, 5}[vsChoose(tag+"-len", 3)])
	}
	return out
}

func vhC14ItemsEq(got, want [][]byte, id string) {
	vsAssert(len(got) == len(want), id+"-count")
	for i := range want {
		vsAssertBytesEq(got[i], want[i], id)
	}
}

// Block bodies and receipts (lists of byte strings + uncles): value -> bytes -> value for 0..K
// items of sizes 0/1/5 and uncles of 0/1/7 bytes (contents symbolic); withdrawals above 192 bytes or more than 16
// of them either fail to encode or are rejected by the decoder.
//
//verif:harness C14.histpkg_bodies_value unwind=60 native
//verif:param K=2/3
func vhC14BodiesValue() {
	k := vsChoose("items", vsParam("K")+1)
	uncles := vsBytesN("uncles", []int{0, 1, 7}[vsChoose("uncles-len", 3)])
	switch vsChoose("type", 3) {
	case 0:
		txs := vhC14Items("tx", k)
		enc, err := (&BlockBodyLegacy{Transactions: txs, Uncles: uncles}).MarshalSSZ()
		var d BlockBodyLegacy
		vsAssert(err == nil && d.UnmarshalSSZ(enc) == nil, "legacy-body-round-trip")
		vhC14ItemsEq(d.Transactions, txs, "legacy-body-transactions")
		vsAssertBytesEq(d.Uncles, uncles, "legacy-body-uncles")
	case 1:
		txs := vhC14Items("tx", k)
		wn := []int{0, 1, 2, 16, 17}[vsChoose("withdrawals", 5)]
		ws := make([][]byte, wn)
		wlen := []int{0, 1, 192, 193}[vsChoose("withdrawal-len", 4)]
		for i := range ws {
			ws[i] = []byte{byte(i)}
		}
		if wn > 0 {
			ws[wn-1] = vsBytesN("withdrawal", wlen)
		}
		enc, err := (&PortalBlockBodyShanghai{Transactions: txs, Uncles: uncles, Withdrawals: ws}).MarshalSSZ()
		var d PortalBlockBodyShanghai
		if wn > 16 || (wn > 0 && wlen > 192) {
			if err == nil {
				vsAssert(d.UnmarshalSSZ(enc) != nil, "shanghai-body-over-limit-rejected")
			}
			vsCover("shanghai-over-limit")
			return
		}
		vsAssert(err == nil && d.UnmarshalSSZ(enc) == nil, "shanghai-body-round-trip")
		vhC14ItemsEq(d.Transactions, txs, "shanghai-body-transactions")
		vsAssertBytesEq(d.Uncles, uncles, "shanghai-body-uncles")
		vhC14ItemsEq(d.Withdrawals, ws, "shanghai-body-withdrawals")
		if wn == 16 && wlen == 192 {
			vsCover("shanghai-at-limit")
		}
	default:
		rs := vhC14Items("receipt", k)
		enc, err := (&PortalReceipts{Receipts: rs}).MarshalSSZ()
		var d PortalReceipts
		vsAssert(err == nil && d.UnmarshalSSZ(enc) == nil, "receipts-round-trip")
		vhC14ItemsEq(d.Receipts, rs, "receipts-items")
	}
}

// Fixed-size and chunk-list containers: HeaderRecord, SSZProof (0..K witnesses),
// MasterAccumulator (0..K, and 1897/1898 epochs): value -> bytes -> value, wrong chunk sizes and
// over-limit lists rejected.
//
//verif:harness C14.histpkg_fixed_value unwind=2000 native
//verif:param K=2/4
func vhC14FixedValue() {
	switch vsChoose("type", 3) {
	case 0:
		h, td := vsBytesN("hash", 32), vsBytesN("td", 32)
		enc, err := (&HeaderRecord{BlockHash: h, TotalDifficulty: td}).MarshalSSZ()
		var d HeaderRecord
		vsAssert(err == nil && len(enc) == 64 && d.UnmarshalSSZ(enc) == nil, "header-record-round-trip")
		vsAssertBytesEq(d.BlockHash, h, "header-record-hash")
		vsAssertBytesEq(d.TotalDifficulty, td, "header-record-td")
		vsAssert(d.UnmarshalSSZ(enc[:63]) != nil, "header-record-short-rejected")
		vsAssert(d.UnmarshalSSZ(append(append([]byte(nil), enc...), 0)) != nil, "header-record-long-rejected")
		if enc, err = (&HeaderRecord{BlockHash: h[:31], TotalDifficulty: td}).MarshalSSZ(); err == nil {
			vsAssert(d.UnmarshalSSZ(enc) != nil, "header-record-wrong-field-size-rejected")
		}
	case 1:
		k := vsChoose("witnesses", vsParam("K")+1)
		leaf := vsBytesN("leaf", 32)
		ws := make([][]byte, k)
		for i := range ws {
			ws[i] = vsBytesN("witness", 32)
		}
		enc, err := (&SSZProof{Leaf: leaf, Witnesses: ws}).MarshalSSZ()
		var d SSZProof
		vsAssert(err == nil && len(enc) == 36+32*k && d.UnmarshalSSZ(enc) == nil, "ssz-proof-round-trip")
		vsAssertBytesEq(d.Leaf, leaf, "ssz-proof-leaf")
		vhC14ItemsEq(d.Witnesses, ws, "ssz-proof-witnesses")
	default:
		k := []int{0, 1, 2, 1897, 1898}[vsChoose("epochs", 5)]
		es := make([][]byte, k)
		for i := range es {
			if i < 2 || i == k-1 {
				es[i] = vsBytesN("epoch", 32)
			} else {
				es[i] = make([]byte, 32)
			}
		}
		enc, err := (&MasterAccumulator{HistoricalEpochs: es}).MarshalSSZ()
		var d MasterAccumulator
		if k > 1897 {
			if err == nil {
				vsAssert(d.UnmarshalSSZ(enc) != nil, "master-accumulator-over-limit-rejected")
			}
			vsCover("master-accumulator-over-limit")
			return
		}
		vsAssert(err == nil && len(enc) == 4+32*k && d.UnmarshalSSZ(enc) == nil, "master-accumulator-round-trip")
		vsAssert(len(d.HistoricalEpochs) == k, "master-accumulator-count")
		for i := range es {
			if i < 2 || i == k-1 {
				vsAssertBytesEq(d.HistoricalEpochs[i], es[i], "master-accumulator-epoch")
			}
		}
		if k == 1897 {
			vsCover("master-accumulator-at-limit")
		}
	}
}

// Canonical decoding: any byte string of 0..L bytes accepted by a history-package decoder
// re-encodes to itself.
//
//verif:harness C14.histpkg_canonical unwind=80 native
//verif:param L=20/36
func vhC14HistPkgCanonical() {
	var m vhC14Codec
	var name string
	l := vsParam("L")
	switch vsChoose("type", 7) {
	case 0:
		m, name, l = &HeaderRecord{}, "HeaderRecord", 70
	case 1:
		m, name = &BlockBodyLegacy{}, "BlockBodyLegacy"
	case 2:
		m, name = &PortalBlockBodyShanghai{}, "PortalBlockBodyShanghai"
	case 3:
		m, name = &BlockHeaderWithProof{}, "BlockHeaderWithProof"
	case 4:
		m, name, l = &SSZProof{}, "SSZProof", 36+70
	case 5:
		m, name, l = &MasterAccumulator{}, "MasterAccumulator", 4+70
	default:
		m, name = &PortalReceipts{}, "PortalReceipts"
	}
	b := vsBytes("b", l)
	if m.UnmarshalSSZ(b) != nil {
		vsCover("rejects")
		return
	}
	enc, err := m.MarshalSSZ()
	vsAssert(err == nil, "decoded-value-re-encodes")
	vsAssertBytesEq(enc, b, "re-encoding-equals-input")
	vsCover("accepts-" + name)
}
