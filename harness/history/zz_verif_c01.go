//go:build verif

package history

import (
	"io"
	"math/big"

	"github.com/cockroachdb/pebble"
	"github.com/ethereum/go-ethereum/core/types"
	"github.com/holiman/uint256"
	"github.com/protolambda/zrnt/eth2/beacon/capella"
	"github.com/zen-eth/shisui/storage"
	historytypes "github.com/zen-eth/shisui/types/history"
	"github.com/zen-eth/shisui/validation"
)

func init() {
	vsRegister("C01.history_storage_key", vhC01HistoryStorageKey)
	vsRegister("C01.history_validate_key", vhC01HistoryValidateKey)
	vsRegister("C01.history_ephemeral_get", vhC01HistoryEphemeralGet)
}

// vmStore: a content store with arbitrary answers.
type vmStore struct{}

var _ storage.ContentStorage = (*vmStore)(nil)

func (s *vmStore) Get(k, id []byte) ([]byte, error) {
	if vsChoose("store-get-found", 2) == 1 {
		return vsBytes("stored", 8), nil
	}
	return nil, storage.ErrContentNotFound
}
func (s *vmStore) Put(k, id, c []byte) error { return nil }
func (s *vmStore) Radius() *uint256.Int      { return uint256.NewInt(0) }
func (s *vmStore) Close() error              { return nil }

// Peer-chosen content keys of 0..L bytes reach the history storage adapter through FINDCONTENT
// and OFFER (the content id is sha256(key), so any key, even the empty one, gets this far).
//
//verif:harness C01.history_storage_key unwind=20
//verif:stub havoc (*github.com/zen-eth/shisui/history.EphemeralStorage).Get (*github.com/zen-eth/shisui/history.EphemeralStorage).Put
//verif:param L=4/40
func vhC01HistoryStorageKey() {
	key := vsBytes("key", vsParam("L"))
	hs := &Storage{eternalStorage: &vmStore{}, ephemeralStorage: &EphemeralStorage{}}
	id := vsBytesN("id", 32)
	if vsChoose("op", 2) == 0 {
		hs.Get(key, id)
	} else {
		hs.Put(key, id, vsBytes("content", 4))
	}
	if len(key) == 0 {
		vsCover("empty-key")
	}
	vsCover("returned")
}

type vmOracle struct{}

func (o *vmOracle) GetHistoricalSummaries(epoch uint64) (capella.HistoricalSummaries, error) {
	return nil, vhErrOracle
}
func (o *vmOracle) GetBlockHeaderByHash(hash []byte) (*types.Header, error) {
	if vsChoose("oracle-has-header", 2) == 1 {
		return &types.Header{}, nil
	}
	return nil, vhErrOracle
}
func (o *vmOracle) GetFinalizedStateRoot() ([]byte, error) { return nil, vhErrOracle }

var vhErrOracle = ErrInvalidBlockHash

var _ validation.Oracle = (*vmOracle)(nil)

// vmDecodeBlockHeader / vmDecodeHeaderWithProof: the RLP header decoder fails or yields a header as
// go-ethereum's decoder does: Number and Difficulty are never nil after a successful decode.
func vmDecodeBlockHeader(b []byte) (*types.Header, error) {
	if vsChoose("header-decodes", 2) == 0 {
		return nil, vhErrOracle
	}
	return &types.Header{Number: new(big.Int).SetUint64(vsU64("header-number")), Difficulty: new(big.Int)}, nil
}

func vmDecodeHeaderWithProof(content []byte) (*historytypes.HeaderWithProof, error) {
	h, err := vmDecodeBlockHeader(content)
	if err != nil {
		return nil, err
	}
	return &historytypes.HeaderWithProof{Header: h, Proof: vsBytes("proof", 4)}, nil
}

// Validator dispatch on a peer-chosen key (0..L bytes) and content; the decoders and the body /
// receipt validators behind the dispatch are arbitrary-outcome stubs.
//
//verif:harness C01.history_validate_key unwind=20
//verif:stub havoc github.com/zen-eth/shisui/types/history.DecodeBlockHeaderWithProof
//verif:model github.com/zen-eth/shisui/types/history.DecodeBlockHeader = vmDecodeBlockHeader
//verif:model github.com/zen-eth/shisui/types/history.DecodeHeaderWithProof = vmDecodeHeaderWithProof
//verif:stub havoc github.com/zen-eth/shisui/history.ValidateBlockBodyBytes github.com/zen-eth/shisui/history.ValidatePortalReceiptsBytes
//verif:stub havoc (github.com/zen-eth/shisui/validation.HeaderValidator).ValidateHeaderAndProof
//verif:stub attr (*github.com/ethereum/go-ethereum/core/types.Header).Hash
//verif:exec github.com/protolambda/ztyp/codec github.com/protolambda/ztyp/view
//verif:param L=12/40
func vhC01HistoryValidateKey() {
	key := vsBytes("key", vsParam("L"))
	content := vsBytes("content", 4)
	h := &HistoryValidator{validationOracle: &vmOracle{}}
	err := h.ValidateContent(key, content)
	if err != nil {
		vsCover("rejected")
	}
	if len(key) == 0 {
		vsCover("empty-key")
	}
}

type vmEphCloser struct{}

func (vmEphCloser) Close() error {
	if vsChoose("close-fails", 2) == 1 {
		return pebble.ErrClosed
	}
	return nil
}

// vmEphDBGet: missing, failing, or any value of 0..12 bytes; the closer may be absent.
func vmEphDBGet(db *pebble.DB, key []byte) ([]byte, io.Closer, error) {
	switch vsChoose("db-get", 3) {
	case 0:
		return nil, nil, pebble.ErrNotFound
	case 1:
		return nil, nil, pebble.ErrClosed
	}
	var c io.Closer
	if vsChoose("closer-present", 2) == 1 {
		c = vmEphCloser{}
	}
	return vsBytes("db-value", 12), c, nil
}

// The ephemeral-header store behind the adapter, with the database answering arbitrarily: a
// peer-chosen find-content key (0..L bytes after the type byte) and database contents of any shape
// (missing entries, values of any length 0..12, iterator positions with keys of any length) never
// panic (requested ancestor counts 0..2 / 0..3: every walk step runs the same code).
//
//verif:harness C01.history_ephemeral_get unwind=300 havocmax=12
//verif:model (*github.com/cockroachdb/pebble.DB).Get = vmEphDBGet
//verif:stub havoc (*github.com/cockroachdb/pebble.DB).NewIter
//verif:stub havoc (*github.com/cockroachdb/pebble.Iterator).SeekGE (*github.com/cockroachdb/pebble.Iterator).Prev (*github.com/cockroachdb/pebble.Iterator).Key (*github.com/cockroachdb/pebble.Iterator).Value (*github.com/cockroachdb/pebble.Iterator).Error (*github.com/cockroachdb/pebble.Iterator).Valid (*github.com/cockroachdb/pebble.Iterator).Close
//verif:param L=34/40 ANC=2/3
func vhC01HistoryEphemeralGet() {
	rest := vsBytes("key", vsParam("L"))
	if len(rest) >= 33 {
		vsAssume(int(rest[32]) <= vsParam("ANC")) // requested ancestor count (each walk step is alike)
	}
	key := append([]byte{byte(historytypes.OfferEphemeralType)}, rest...)
	hs := &Storage{eternalStorage: &vmStore{}, ephemeralStorage: &EphemeralStorage{db: new(pebble.DB)}}
	out, err := hs.Get(key, vsBytesN("id", 32))
	if err == nil {
		_ = out
		vsCover("payload-returned")
	} else {
		vsCover("rejected")
	}
}
