//go:build verif

package history

import (
	"github.com/ethereum/go-ethereum/core/types"
	"github.com/holiman/uint256"
	"github.com/protolambda/zrnt/eth2/beacon/capella"
	"github.com/zen-eth/shisui/storage"
	"github.com/zen-eth/shisui/validation"
)

func init() {
	vsRegister("C01.history_storage_key", vhC01HistoryStorageKey)
	vsRegister("C01.history_validate_key", vhC01HistoryValidateKey)
}

// vmStore: a content store with arbitrary answers.
type vmStore struct{}

var _ storage.ContentStorage = (*vmStore)(nil)

func (s *vmStore) Get(k, id []byte) ([]byte, error) {
	if vsChoose("store-get-found", 2) == 1 {
		return vsBytes("stored", 8), nil
	}
	return nil, storage.ErrContentNotFound
}
func (s *vmStore) Put(k, id, c []byte) error { return nil }
func (s *vmStore) Radius() *uint256.Int      { return uint256.NewInt(0) }
func (s *vmStore) Close() error              { return nil }

// Peer-chosen content keys of 0..L bytes reach the history storage adapter through FINDCONTENT
// and OFFER (the content id is sha256(key), so any key, even the empty one, gets this far).
//
//verif:harness C01.history_storage_key unwind=20
//verif:stub havoc (*github.com/zen-eth/shisui/history.EphemeralStorage).Get (*github.com/zen-eth/shisui/history.EphemeralStorage).Put
//verif:param L=4/40
func vhC01HistoryStorageKey() {
	key := vsBytes("key", vsParam("L"))
	hs := &Storage{eternalStorage: &vmStore{}, ephemeralStorage: &EphemeralStorage{}}
	id := vsBytesN("id", 32)
	if vsChoose("op", 2) == 0 {
		hs.Get(key, id)
	} else {
		hs.Put(key, id, vsBytes("content", 4))
	}
	if len(key) == 0 {
		vsCover("empty-key")
	}
	vsCover("returned")
}

type vmOracle struct{}

func (o *vmOracle) GetHistoricalSummaries(epoch uint64) (capella.HistoricalSummaries, error) {
	return nil, vhErrOracle
}
func (o *vmOracle) GetBlockHeaderByHash(hash []byte) (*types.Header, error) {
	if vsChoose("oracle-has-header", 2) == 1 {
		return &types.Header{}, nil
	}
	return nil, vhErrOracle
}
func (o *vmOracle) GetFinalizedStateRoot() ([]byte, error) { return nil, vhErrOracle }

var vhErrOracle = ErrInvalidBlockHash

var _ validation.Oracle = (*vmOracle)(nil)

// Validator dispatch on a peer-chosen key (0..L bytes) and content; the decoders and the body /
// receipt validators behind the dispatch are arbitrary-outcome stubs.
//
//verif:harness C01.history_validate_key unwind=20
//verif:stub havoc github.com/zen-eth/shisui/types/history.DecodeBlockHeaderWithProof github.com/zen-eth/shisui/types/history.DecodeBlockHeader github.com/zen-eth/shisui/types/history.DecodeHeaderWithProof
//verif:stub havoc github.com/zen-eth/shisui/history.ValidateBlockBodyBytes github.com/zen-eth/shisui/history.ValidatePortalReceiptsBytes
//verif:stub havoc (github.com/zen-eth/shisui/validation.HeaderValidator).ValidateHeaderAndProof
//verif:stub attr (*github.com/ethereum/go-ethereum/core/types.Header).Hash
//verif:exec github.com/protolambda/ztyp/codec github.com/protolambda/ztyp/view
//verif:param L=4/40
func vhC01HistoryValidateKey() {
	key := vsBytes("key", vsParam("L"))
	content := vsBytes("content", 4)
	h := &HistoryValidator{validationOracle: &vmOracle{}}
	err := h.ValidateContent(key, content)
	if err != nil {
		vsCover("rejected")
	}
	if len(key) == 0 {
		vsCover("empty-key")
	}
}
