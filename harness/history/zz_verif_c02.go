//go:build verif

package history

import (
	"bytes"
	"math/big"

	"github.com/ethereum/go-ethereum/common"
	"github.com/ethereum/go-ethereum/core/types"
	"github.com/protolambda/zrnt/eth2/beacon/capella"
	historytypes "github.com/zen-eth/shisui/types/history"
	"github.com/zen-eth/shisui/validation"
)

func init() {
	vsRegister("C02.validate_binding", vhC02ValidateBinding)
}

// ---------------------------------------------------------------------------------------------
// Glue-level idealisation: the byte decoders yield arbitrary objects (or fail); hashes and trie
// roots are opaque 32-byte attributes (collision freedom assumed); the header proof check is an
// observable boolean (its own soundness is C03); the header source may return ANY header.
// ---------------------------------------------------------------------------------------------

type vmC02Env struct {
	decodedHeader *types.Header // what the content decodes to (header keys)
	decodeFails   bool
	proofOK       bool
	proofCalls    int
	proofHeader   *types.Header
	oracleHeader  *types.Header // what the header source returns (body / receipt keys)
	oracleFails   bool
	body          *types.Body
	bodyFails     bool
	receiptsFail  bool
	uncleRoot     common.Hash
	txRoot        common.Hash
	wdRoot        common.Hash
	rcRoot        common.Hash
}

var vmC02 *vmC02Env

type vmC02Oracle struct{}

func (vmC02Oracle) GetHistoricalSummaries(epoch uint64) (capella.HistoricalSummaries, error) {
	return nil, vhErrC02
}
func (vmC02Oracle) GetFinalizedStateRoot() ([]byte, error) { return nil, vhErrC02 }
func (vmC02Oracle) GetBlockHeaderByHash(hash []byte) (*types.Header, error) {
	if vmC02.oracleFails {
		return nil, vhErrC02
	}
	return vmC02.oracleHeader, nil
}

var _ validation.Oracle = vmC02Oracle{}

func vmDecodeBHWP(content []byte) (*historytypes.BlockHeaderWithProof, error) {
	if vmC02.decodeFails {
		return nil, vhErrC02
	}
	return &historytypes.BlockHeaderWithProof{Header: []byte{1}, Proof: []byte{2}}, nil
}

func vmDecodeBH(raw []byte) (*types.Header, error) { return vmC02.decodedHeader, nil }

func vmDecodeHWP(content []byte) (*historytypes.HeaderWithProof, error) {
	if vmC02.decodeFails {
		return nil, vhErrC02
	}
	return &historytypes.HeaderWithProof{Header: vmC02.decodedHeader, Proof: []byte{2}}, nil
}

func vmValidateHeaderAndProof(h validation.HeaderValidator, header *types.Header, proof []byte) error {
	vmC02.proofCalls++
	vmC02.proofHeader = header
	if vmC02.proofOK {
		return nil
	}
	return vhErrC02
}

func vmDecodeBody(b []byte) (*types.Body, error) {
	if vmC02.bodyFails {
		return nil, vhErrC02
	}
	return vmC02.body, nil
}

func vmDecodeReceipts(b []byte) ([]*types.Receipt, error) {
	if vmC02.receiptsFail {
		return nil, vhErrC02
	}
	return nil, nil
}

func vmCalcUncleHash(uncles []*types.Header) common.Hash { return vmC02.uncleRoot }

func vmDeriveSha(list types.DerivableList, hasher types.TrieHasher) common.Hash {
	switch list.(type) {
	case types.Transactions:
		return vmC02.txRoot
	case types.Withdrawals:
		return vmC02.wdRoot
	}
	return vmC02.rcRoot
}

//verif:group c02env
//verif:model github.com/zen-eth/shisui/types/history.DecodeBlockHeaderWithProof = vmDecodeBHWP
//verif:model github.com/zen-eth/shisui/types/history.DecodeBlockHeader = vmDecodeBH
//verif:model github.com/zen-eth/shisui/types/history.DecodeHeaderWithProof = vmDecodeHWP
//verif:model (github.com/zen-eth/shisui/validation.HeaderValidator).ValidateHeaderAndProof = vmValidateHeaderAndProof
//verif:model github.com/zen-eth/shisui/history.DecodePortalBlockBodyBytes = vmDecodeBody
//verif:model github.com/zen-eth/shisui/history.DecodeReceipts = vmDecodeReceipts
//verif:model github.com/ethereum/go-ethereum/core/types.CalcUncleHash = vmCalcUncleHash
//verif:model github.com/ethereum/go-ethereum/core/types.DeriveSha = vmDeriveSha
//verif:stub attr (*github.com/ethereum/go-ethereum/core/types.Header).Hash
//verif:stub havoc,nilable github.com/ethereum/go-ethereum/trie.NewStackTrie
//verif:exec github.com/protolambda/ztyp/codec github.com/protolambda/ztyp/view math/big
func vgC02Env() {}

func vhC02Header(tag string) *types.Header {
	h := &types.Header{
		UncleHash:   common.Hash(vsArr32(tag + "-uncle-root")),
		TxHash:      common.Hash(vsArr32(tag + "-tx-root")),
		ReceiptHash: common.Hash(vsArr32(tag + "-receipt-root")),
		Number:      new(big.Int).SetUint64(vsU64(tag + "-number")),
	}
	wd := common.Hash(vsArr32(tag + "-withdrawals-root"))
	h.WithdrawalsHash = &wd
	return h
}

// ValidateContent returns nil only if the content is bound to its key: header keys - the decoded
// header's hash (or number) is the key's and the proof check passed for that header; body and
// receipt keys - the roots recomputed from the content equal those of a header whose hash is the
// key's block hash, whatever the header source returned.
//
//verif:harness C02.validate_binding unwind=40 timeout=60
//verif:use c02env
func vhC02ValidateBinding() {
	vmC02 = &vmC02Env{
		decodedHeader: vhC02Header("decoded"), decodeFails: vsBool("decode-fails"), proofOK: vsBool("proof-ok"),
		oracleHeader: vhC02Header("oracle"), oracleFails: vsBool("oracle-fails"),
		bodyFails: vsBool("body-decode-fails"), receiptsFail: vsBool("receipts-decode-fails"),
		uncleRoot: common.Hash(vsArr32("body-uncle-root")), txRoot: common.Hash(vsArr32("body-tx-root")),
		wdRoot: common.Hash(vsArr32("body-withdrawals-root")), rcRoot: common.Hash(vsArr32("receipts-root")),
	}
	vmC02.body = &types.Body{}
	if vsBool("body-has-withdrawals") {
		vmC02.body.Withdrawals = []*types.Withdrawal{}
	}
	h := &HistoryValidator{validationOracle: vmC02Oracle{}}
	kind := vsChoose("key-type", 4)
	var key []byte
	content := vsBytes("content", 2)
	switch kind {
	case 0:
		key = append([]byte{byte(historytypes.BlockHeaderType)}, vsBytesN("key-hash", 32)...)
	case 1:
		key = append([]byte{byte(historytypes.BlockHeaderNumberType)}, vsBytesN("key-number", 8)...)
	case 2:
		key = append([]byte{byte(historytypes.BlockBodyType)}, vsBytesN("key-hash", 32)...)
	default:
		key = append([]byte{byte(historytypes.ReceiptsType)}, vsBytesN("key-hash", 32)...)
	}
	err := h.ValidateContent(key, content)
	if err != nil {
		vsCover("rejected")
		return
	}
	switch kind {
	case 0:
		dh := vmC02.decodedHeader
		vsAssert(bytes.Equal(dh.Hash().Bytes(), key[1:]), "header-hash-is-the-keys")
		vsAssert(vmC02.proofCalls == 1 && vmC02.proofOK && vmC02.proofHeader == dh, "proof-verified-for-that-header")
		vsCover("header-by-hash")
	case 1:
		dh := vmC02.decodedHeader
		var want uint64
		for i := 0; i < 8; i++ {
			want |= uint64(key[1+i]) << uint(8*i) // SSZ uint64: little-endian
		}
		vsAssert(dh.Number.Uint64() == want, "header-number-is-the-keys")
		vsAssert(vmC02.proofCalls == 1 && vmC02.proofOK && vmC02.proofHeader == dh, "proof-verified-for-that-header")
		vsCover("header-by-number")
	case 2:
		oh := vmC02.oracleHeader
		vsAssert(bytes.Equal(oh.Hash().Bytes(), key[1:]), "body-checked-against-the-header-with-the-keys-hash")
		vsAssert(vmC02.uncleRoot == oh.UncleHash && vmC02.txRoot == oh.TxHash, "body-roots-equal-header-roots")
		if vmC02.body.Withdrawals != nil {
			vsAssert(vmC02.wdRoot == *oh.WithdrawalsHash, "withdrawals-root-equals-header-root")
		}
		vsCover("body")
	default:
		oh := vmC02.oracleHeader
		vsAssert(bytes.Equal(oh.Hash().Bytes(), key[1:]), "receipts-checked-against-the-header-with-the-keys-hash")
		if !bytes.Equal(oh.ReceiptHash.Bytes(), emptyReceiptHash) {
			vsAssert(vmC02.rcRoot == oh.ReceiptHash, "receipts-root-equals-header-root")
		} else {
			vsAssert(len(content) == 0, "empty-receipt-root-needs-empty-content")
		}
		vsCover("receipts")
	}
}

var vhErrC02 = ErrInvalidBlockNumber
