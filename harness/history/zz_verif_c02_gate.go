//go:build verif

package history

import (
	"bytes"

	"github.com/ethereum/go-ethereum/core/types"
	"github.com/zen-eth/shisui/portalwire"
	"github.com/zen-eth/shisui/storage"
	historytypes "github.com/zen-eth/shisui/types/history"
)

func init() {
	vsRegister("C02.gate_store", vhC02GateStore)
	vsRegister("C02.gate_getters", vhC02GateGetters)
}

// The network around the validator: what is stored or returned was validated under its key.
// The portal protocol (local store, lookup) and the validator are recording models with arbitrary
// outcomes; the byte decoders of headers / bodies / receipts are arbitrary-outcome stubs.

type vmGateEnv struct {
	local       map[string][]byte // what the local store holds
	localFails  bool              // the store fails with an error other than "not found"
	lookup      []byte
	lookupFails bool
	lookups     [][]byte
	verdicts    []bool // successive validator verdicts
	validated   []vmKC
	puts        []vmKC
}

type vmKC struct{ key, content []byte }

var vmGate *vmGateEnv

var vhGateErr = storage.ErrInsufficientRadius

func vmPPToContentId(p *portalwire.PortalProtocol, key []byte) []byte {
	return append([]byte{0xcc}, key...)
}

func vmPPGet(p *portalwire.PortalProtocol, key, id []byte) ([]byte, error) {
	if vmGate.localFails {
		return nil, vhGateErr
	}
	for k, v := range vmGate.local {
		if k == string(key) {
			return v, nil
		}
	}
	return nil, storage.ErrContentNotFound
}

func vmPPPut(p *portalwire.PortalProtocol, key, id, content []byte) error {
	vmGate.puts = append(vmGate.puts, vmKC{key, content})
	return nil
}

func vmPPContentLookup(p *portalwire.PortalProtocol, key, id []byte) ([]byte, bool, error) {
	vmGate.lookups = append(vmGate.lookups, key)
	if vmGate.lookupFails {
		return nil, false, vhGateErr
	}
	return vmGate.lookup, false, nil
}

type vmGateValidator struct{}

func (vmGateValidator) ValidateContent(key, content []byte) error {
	i := len(vmGate.validated)
	vmGate.validated = append(vmGate.validated, vmKC{key, content})
	if i < len(vmGate.verdicts) && vmGate.verdicts[i] {
		return nil
	}
	return vhGateErr
}

//verif:group gateenv
//verif:model (*github.com/zen-eth/shisui/portalwire.PortalProtocol).ToContentId = vmPPToContentId
//verif:model (*github.com/zen-eth/shisui/portalwire.PortalProtocol).Get = vmPPGet
//verif:model (*github.com/zen-eth/shisui/portalwire.PortalProtocol).Put = vmPPPut
//verif:model (*github.com/zen-eth/shisui/portalwire.PortalProtocol).ContentLookup = vmPPContentLookup
//verif:stub havoc github.com/zen-eth/shisui/types/history.DecodeHeaderWithProof
//verif:stub havoc,nilable github.com/zen-eth/shisui/history.DecodePortalBlockBodyBytes github.com/zen-eth/shisui/history.DecodeReceipts github.com/zen-eth/shisui/history.FromPortalReceipts
//verif:stub noop github.com/ethereum/go-ethereum/common/hexutil.Encode
func vgGateEnv() {}

func vhValidatedAs(key, content []byte) bool {
	for i, kc := range vmGate.validated {
		if bytes.Equal(kc.key, key) && bytes.Equal(kc.content, content) && i < len(vmGate.verdicts) && vmGate.verdicts[i] {
			return true
		}
	}
	return false
}

// Offered content (validateContents over 0..K items): an item is stored only after the validator
// accepted exactly these bytes under exactly this key; nothing after the first rejected item is
// stored; items already held are not re-stored.
//
//verif:harness C02.gate_store unwind=40
//verif:use gateenv
//verif:param K=2/3
func vhC02GateStore() {
	k := vsChoose("items", vsParam("K")+1)
	vmGate = &vmGateEnv{local: map[string][]byte{}}
	keys, contents := make([][]byte, k), make([][]byte, k)
	for i := 0; i < k; i++ {
		keys[i] = []byte{byte(i), vsU8("key-byte")}
		contents[i] = vsBytesN("content", 2)
		if vsBool("already-held") {
			vmGate.local[string(keys[i])] = []byte{1}
		}
		vmGate.verdicts = append(vmGate.verdicts, vsBool("valid"))
	}
	h := &Network{portalProtocol: new(portalwire.PortalProtocol), validator: vmGateValidator{}}
	err := h.validateContents(keys, contents)
	for _, p := range vmGate.puts {
		vsAssert(vhValidatedAs(p.key, p.content), "stored-only-what-was-validated-under-its-key")
	}
	rejected := false
	for i := range vmGate.validated {
		if !vmGate.verdicts[i] {
			rejected = true
		}
	}
	vsAssert((err != nil) == rejected, "a-rejected-item-is-reported")
	if rejected {
		vsAssert(len(vmGate.puts) == len(vmGate.validated)-1, "nothing-stored-from-the-rejected-item-on")
		vsCover("rejected")
	}
	if len(vmGate.puts) > 0 {
		vsCover("stored")
	}
}

// The block getters: what they return for a block hash comes from the local store (validated when
// it was stored) or from a lookup whose bytes the validator accepted under the key built from the
// requested hash and the getter's content type; looked-up bytes that fail validation are neither
// returned nor stored.
//
//verif:harness C02.gate_getters unwind=40
//verif:use gateenv
func vhC02GateGetters() {
	hash := vsBytesN("block-hash", 32)
	vmGate = &vmGateEnv{local: map[string][]byte{}, localFails: vsBool("store-error"), lookupFails: vsBool("lookup-fails"), lookup: vsBytesN("looked-up", 3), verdicts: []bool{vsBool("valid")}}
	which := vsChoose("getter", 3)
	typ := []historytypes.ContentType{historytypes.BlockHeaderType, historytypes.BlockBodyType, historytypes.ReceiptsType}[which]
	key := historytypes.NewContentKey(typ, hash).Encode()
	held := vsBool("held-locally")
	if held {
		vmGate.local[string(key)] = []byte{7}
	}
	h := &Network{portalProtocol: new(portalwire.PortalProtocol), validator: vmGateValidator{}}
	var err error
	var got interface{}
	switch which {
	case 0:
		var r *types.Header
		r, err = h.GetBlockHeader(hash)
		got = r
	case 1:
		var r *types.Body
		r, err = h.GetBlockBody(hash)
		got = r
	default:
		var r []*types.Receipt
		r, err = h.GetReceipts(hash)
		got = r
	}
	_ = got
	for _, p := range vmGate.puts {
		vsAssert(bytes.Equal(p.key, key) && vhValidatedAs(p.key, p.content), "stored-only-what-was-validated-under-the-requested-key")
	}
	if err != nil {
		vsCover("error")
		return
	}
	if held && !vmGate.localFails {
		vsAssert(len(vmGate.lookups) == 0 && len(vmGate.puts) == 0, "local-copy-served-without-lookup")
		vsCover("served-locally")
		return
	}
	vsAssert(!vmGate.localFails, "store-error-is-reported")
	vsAssert(!vmGate.lookupFails && len(vmGate.lookups) == 1 && bytes.Equal(vmGate.lookups[0], key), "looked-up-under-the-requested-key")
	vsAssert(vhValidatedAs(key, vmGate.lookup), "returned-only-after-validation-under-the-requested-key")
	vsCover("served-from-lookup")
}
