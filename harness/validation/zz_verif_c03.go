//go:build verif

package validation

import (
	"crypto/sha256"
	ssz "github.com/ferranbt/fastssz"
	"math/big"

	"github.com/ethereum/go-ethereum/core/types"
	"github.com/protolambda/zrnt/eth2/beacon/capella"
	"github.com/protolambda/zrnt/eth2/beacon/common"
	"github.com/protolambda/zrnt/eth2/util/hashing"
	"github.com/protolambda/zrnt/eth2/util/merkle"
	"github.com/protolambda/ztyp/tree"
	"github.com/zen-eth/shisui/types/history"
)

// ---------------------------------------------------------------------------------------------
// Idealisation: sha256 is an injective uninterpreted function (collision freedom is assumed);
// the trusted accumulator is ANY tree: for a node n, L(n) and R(n) are uninterpreted and
// n = H(L(n) ++ R(n)) is assumed along the path that the SPEC position selects.
// ---------------------------------------------------------------------------------------------

//verif:group shauf
//verif:uf,injective,as=sha256 github.com/minio/sha256-simd.Sum256 crypto/sha256.Sum256
//verif:stub attr (*github.com/ethereum/go-ethereum/core/types.Header).Hash
func vgShaUF() {}

//verif:group sha
//verif:use shauf
//verif:model github.com/protolambda/zrnt/eth2/util/merkle.VerifyMerkleBranch = vmVerifyMerkleBranch
//verif:model github.com/ferranbt/fastssz.VerifyProof = vmSszVerifyProof
func vgSha() {}

func vhH(l, r [32]byte) [32]byte {
	var buf [64]byte
	copy(buf[:32], l[:])
	copy(buf[32:], r[:])
	return sha256.Sum256(buf[:])
}

// vhCommitted: the node of the ideal tree under root selected by the low `depth` bits of g.
func vhCommitted(root [32]byte, g uint64, depth int) [32]byte {
	node := root
	for level := depth - 1; level >= 0; level-- {
		l, r := vsUF256("L", node), vsUF256("R", node)
		vsAssume(vhH(l, r) == node)
		node = vsIte32((g>>uint(level))&1 == 1, r, l)
	}
	return node
}

// vhSiblings: the honest proof for that position (bottom-up order, as the verifiers expect).
func vhSiblings(root [32]byte, g uint64, depth int) [][32]byte {
	sib := make([][32]byte, depth)
	node := root
	for level := depth - 1; level >= 0; level-- {
		l, r := vsUF256("L", node), vsUF256("R", node)
		vsAssume(vhH(l, r) == node)
		bit := (g>>uint(level))&1 == 1
		sib[level] = vsIte32(bit, l, r)
		node = vsIte32(bit, r, l)
	}
	return sib
}

// Fork-free summaries of the two library verification loops (the real loops branch on every index
// bit, 2^depth paths). C03.lemma_* prove them equal to the real code for small depths with a
// symbolic index; the loop bodies do not depend on the depth.
func vmVerifyMerkleBranch(leaf tree.Root, branch []tree.Root, depth uint64, index uint64, root tree.Root) bool {
	value := [32]byte(leaf)
	for i := uint64(0); i < depth; i++ {
		b := [32]byte(branch[i])
		bit := (index>>i)&1 == 1
		value = vhH(vsIte32(bit, b, value), vsIte32(bit, value, b))
	}
	return value == [32]byte(root)
}

func vmSszVerifyProof(root []byte, proof *ssz.Proof) (bool, error) {
	n := 0
	for idx := proof.Index; idx > 1; idx >>= 1 {
		n++
	}
	if proof.Index <= 0 || len(proof.Hashes) != n {
		return false, vhErr
	}
	var node [32]byte
	copy(node[:], proof.Leaf)
	for i, h := range proof.Hashes {
		var hh [32]byte
		copy(hh[:], h)
		bit := proof.Index&(1<<uint(i)) > 0
		node = vhH(vsIte32(bit, hh, node), vsIte32(bit, node, hh))
	}
	var r [32]byte
	copy(r[:], root)
	return len(root) == 32 && node == r, nil
}

var vhErr = vhNewErr()

func vhNewErr() error { return ErrMerkleValidation }

func init() {
	vsRegister("C03.lemma_branch", vhC03LemmaBranch)
	vsRegister("C03.lemma_sszproof", vhC03LemmaSszProof)
	vsRegister("C03.premerge_sound", vhC03PreMergeSound)
	vsRegister("C03.premerge_complete", vhC03PreMergeComplete)
	vsRegister("C03.premerge_length", vhC03PreMergeLength)
	vsRegister("C03.roots_sound", vhC03RootsSound)
	vsRegister("C03.roots_complete", vhC03RootsComplete)
	vsRegister("C03.capella_sound", vhC03CapellaSound)
	vsRegister("C03.deneb_sound", vhC03DenebSound)
	vsRegister("C03.capella_complete", vhC03CapellaComplete)
	vsRegister("C03.deneb_complete", vhC03DenebComplete)
	vsRegister("C03.era_dispatch", vhC03EraDispatch)
}

// Lemma: the fork-free summary equals zrnt's real VerifyMerkleBranch (symbolic index, depth 0..3).
//
//verif:harness C03.lemma_branch unwind=10
//verif:use shauf
func vhC03LemmaBranch() {
	depth := vsChoose("depth", 4)
	extra := vsChoose("extra", 2) // branch may be longer than depth
	branch := make([]tree.Root, depth+extra)
	for i := range branch {
		branch[i] = tree.Root(vsArr32("b"))
	}
	leaf, root, index := tree.Root(vsArr32("leaf")), tree.Root(vsArr32("root")), vsU64("index")
	real := merkle.VerifyMerkleBranch(leaf, branch, uint64(depth), index, root)
	model := vmVerifyMerkleBranch(leaf, branch, uint64(depth), index, root)
	vsAssert(real == model, "summary-equals-real-VerifyMerkleBranch")
	if real {
		vsCover("accepting")
	}
}

// Lemma: the summary of fastssz.VerifyProof equals the real function (index 1..31, any hashes).
//
//verif:harness C03.lemma_sszproof unwind=10
//verif:use shauf
func vhC03LemmaSszProof() {
	index := vsInt("index")
	vsAssume(index >= 1 && index <= 31)
	n := vsChoose("hashes", 6)
	hs := make([][]byte, n)
	for i := range hs {
		hs[i] = vsBytesN("h", 32)
	}
	leaf, root := vsBytesN("leaf", 32), vsBytesN("root", 32)
	p := &ssz.Proof{Index: index, Leaf: leaf, Hashes: hs}
	real, rerr := ssz.VerifyProof(root, p)
	model, merr := vmSszVerifyProof(root, p)
	vsAssert((rerr == nil) == (merr == nil), "summary-error-equals-real")
	vsAssert(real == model, "summary-equals-real-VerifyProof")
	if real {
		vsCover("accepting")
	}
}

// ---- pre-merge era ---------------------------------------------------------------------------

// vhEpochs: accumulator length used by the harnesses (mainnet: 1897 / 758 / growing)
func vhEpochsN() int { return vsParam("E") }

func vhPreMergeValidator() (HeaderValidator, [][32]byte) {
	roots := make([][32]byte, vhEpochsN())
	acc := PreMergeAccumulator{}
	for i := range roots {
		roots[i] = vsArr32("epoch-root")
		r := roots[i]
		acc.HistoricalEpochs = append(acc.HistoricalEpochs, r[:])
	}
	return HeaderValidator{preMergeAcc: acc}, roots
}

// Soundness: ValidateHeaderAndProof accepts a pre-merge header only if its hash is the leaf
// committed at gindex 2^15 + 2*(n mod 8192) under HistoricalEpochs[n div 8192] - for every block
// number below 3*8192, every 15-sibling proof and every tree.
//
//verif:harness C03.premerge_sound unwind=40 timeout=300 noassumecheck
//verif:use sha
//verif:param E=2/3 FULLCOVER=0/1
func vhC03PreMergeSound() {
	h, roots := vhPreMergeValidator()
	n := vsU64("n")
	vsAssume(n < uint64(vhEpochsN())*8192)
	header := &types.Header{Number: new(big.Int).SetUint64(n)}
	proof := vsBytesN("proof", 15*32)
	err := h.ValidateHeaderAndProof(header, proof)
	if err != nil {
		vsCover("rejects")
		return
	}
	vsCover("accepts") // witness taken before the tree assumptions (their sat side is expensive)
	want := vhCommitted(roots[n/8192], 1<<15+2*(n%8192), 15)
	vsAssert([32]byte(header.Hash()) == want, "accepted-header-is-the-committed-leaf")
	vhFullCover("accepts-with-tree")
}

// Completeness: the honest proof read off the tree verifies; any other proof length is rejected.
//
//verif:harness C03.premerge_complete unwind=40 timeout=300 noassumecheck
//verif:use sha
//verif:param E=2/3 FULLCOVER=0/1
func vhC03PreMergeComplete() {
	h, roots := vhPreMergeValidator()
	n := vsU64("n")
	vsAssume(n < uint64(vhEpochsN())*8192)
	header := &types.Header{Number: new(big.Int).SetUint64(n)}
	g := 1<<15 + 2*(n%8192)
	root := roots[n/8192]
	sib := vhSiblings(root, g, 15)
	vsAssume([32]byte(header.Hash()) == vhCommitted(root, g, 15))
	var proof []byte
	for i := range sib {
		proof = append(proof, sib[i][:]...)
	}
	vsAssert(h.ValidateHeaderAndProof(header, proof) == nil, "honest-proof-verifies")
	vsCover("honest")
	if n%8192 == 8191 {
		vhFullCover("last-record-of-epoch")
	}
	if n%8192 == 0 {
		vhFullCover("first-record-of-epoch")
	}
}

// Proofs of any other length than 15 siblings are rejected (contents arbitrary).
//
//verif:harness C03.premerge_length unwind=40 timeout=120
//verif:use sha
//verif:param E=1/2
func vhC03PreMergeLength() {
	h, _ := vhPreMergeValidator()
	n := vsU64("n")
	vsAssume(n < uint64(vhEpochsN())*8192)
	header := &types.Header{Number: new(big.Int).SetUint64(n)}
	k := []int{0, 1, 14, 16, 31}[vsChoose("chunks", 5)]
	extra := vsChoose("ragged", 2) // a trailing partial chunk
	proof := vsBytesN("proof", k*32+extra*7)
	vsAssert(h.ValidateHeaderAndProof(header, proof) != nil, "wrong-length-proof-rejected")
	vsCover("rejected")
}

// ---- merge .. capella (historical roots) ------------------------------------------------------

func vhRootsValidator() (HeaderValidator, [][32]byte) {
	roots := make([][32]byte, vhEpochsN())
	var acc HistoricalRoots
	for i := range roots {
		roots[i] = vsArr32("hist-root")
		acc = append(acc, common.Root(roots[i]))
	}
	return HeaderValidator{historicalRootsAcc: HistoricalRootsAccumulator{HistoricalRoots: acc}}, roots
}

//verif:harness C03.roots_sound unwind=40 timeout=300 noassumecheck
//verif:use sha
//verif:param E=2/3 FULLCOVER=0/1
func vhC03RootsSound() {
	h, roots := vhRootsValidator()
	n := vsU64("n")
	vsAssume(n >= history.MergeBlockNumber && n < history.ShanghaiBlockNumber)
	header := &types.Header{Number: new(big.Int).SetUint64(n)}
	proof := vsBytesN("proof", (14+1+11)*32+8)
	err := h.ValidateHeaderAndProof(header, proof)
	if err != nil {
		vsCover("rejects")
		return
	}
	vsCover("accepts")
	var bp history.BlockProofHistoricalRoots
	vsAssert(bp.UnmarshalSSZ(proof) == nil, "accepted-proof-decodes")
	slot := bp.Slot
	vsAssert(slot/8192 < uint64(vhEpochsN()), "accepted-slot-inside-accumulator")
	var bbr [32]byte
	copy(bbr[:], bp.BeaconBlockRoot)
	vsAssert(vhCommitted(roots[slot/8192], 2*8192+slot%8192, 14) == bbr, "beacon-root-committed-at-slot-position")
	vsAssert(vhCommitted(bbr, 3228, 11) == [32]byte(header.Hash()), "header-hash-committed-in-beacon-block")
	vhFullCover("accepts-with-tree")
}

//verif:harness C03.roots_complete unwind=40 timeout=300 noassumecheck
//verif:use sha
//verif:param E=2/3 FULLCOVER=0/1
func vhC03RootsComplete() {
	h, roots := vhRootsValidator()
	n := vsU64("n")
	vsAssume(n >= history.MergeBlockNumber && n < history.ShanghaiBlockNumber)
	header := &types.Header{Number: new(big.Int).SetUint64(n)}
	slot := vsU64("slot")
	if slot/8192 >= uint64(vhEpochsN()) {
		// beyond the accumulator: an error, not a panic (for any proof contents)
		bp := history.BlockProofHistoricalRoots{BeaconBlockProof: vhChunks("bbp", 14), BeaconBlockRoot: vsBytesN("bbr", 32), ExecutionBlockProof: vhChunks("ebp", 11), Slot: slot}
		enc, err := bp.MarshalSSZ()
		vsAssert(err == nil, "proof-encodes")
		vsAssert(h.ValidateHeaderAndProof(header, enc) != nil, "slot-beyond-accumulator-is-an-error")
		vsCover("beyond-accumulator")
		return
	}
	g := 2*8192 + slot%8192
	root := roots[slot/8192]
	bbr := vhCommitted(root, g, 14)
	sibB := vhSiblings(root, g, 14)
	sibE := vhSiblings(bbr, 3228, 11)
	vsAssume([32]byte(header.Hash()) == vhCommitted(bbr, 3228, 11))
	bp := history.BlockProofHistoricalRoots{BeaconBlockRoot: bbr[:], Slot: slot}
	for i := range sibB {
		bp.BeaconBlockProof = append(bp.BeaconBlockProof, sibB[i][:])
	}
	for i := range sibE {
		bp.ExecutionBlockProof = append(bp.ExecutionBlockProof, sibE[i][:])
	}
	enc, err := bp.MarshalSSZ()
	vsAssert(err == nil, "proof-encodes")
	vsAssert(h.ValidateHeaderAndProof(header, enc) == nil, "honest-proof-verifies")
	vsCover("honest")
}

// vhFullCover: reachability witness under all tree assumptions (a model of the idealised hash
// with every injectivity instance) - thorough tier only, the sat side takes minutes.
func vhFullCover(id string) {
	if vsParam("FULLCOVER") == 1 {
		vsCover(id)
	}
}

func vhChunks(tag string, n int) [][]byte {
	out := make([][]byte, n)
	for i := range out {
		out[i] = vsBytesN(tag, 32)
	}
	return out
}

// ---- capella .. deneb and post-deneb (historical summaries) ------------------------------------

const vhCapellaStart = 194_048 * 32

func vhSummariesValidator() (HeaderValidator, [][32]byte) {
	roots := make([][32]byte, vhEpochsN())
	var sums []capella.HistoricalSummary
	for i := range roots {
		roots[i] = vsArr32("summary-root")
		sums = append(sums, capella.HistoricalSummary{BlockSummaryRoot: common.Root(roots[i]), StateSummaryRoot: common.Root(vsArr32("state-root"))})
	}
	return NewHeaderValidatorWithHistorySummariesNoDefaults(sums), roots
}

func NewHeaderValidatorWithHistorySummariesNoDefaults(s []capella.HistoricalSummary) HeaderValidator {
	return HeaderValidator{historicalSummariesProvider: NewWithHistorySummaries(s)}
}

//verif:harness C03.capella_sound unwind=40 timeout=300 noassumecheck
//verif:use sha
//verif:param E=2/3 FULLCOVER=0/1
func vhC03CapellaSound() { vhC03SummariesSound(false) }

//verif:harness C03.deneb_sound unwind=40 timeout=300 noassumecheck
//verif:use sha
//verif:param E=2/3 FULLCOVER=0/1
func vhC03DenebSound() { vhC03SummariesSound(true) }

func vhC03SummariesSound(deneb bool) {
	h, roots := vhSummariesValidator()
	n := vsU64("n")
	eDepth, eIndex := 11, uint64(3228)
	if deneb {
		vsAssume(n >= history.CancunNumber)
		eDepth, eIndex = 12, 6444
	} else {
		vsAssume(n >= history.ShanghaiBlockNumber && n < history.CancunNumber)
	}
	header := &types.Header{Number: new(big.Int).SetUint64(n)}
	proof := vsBytesN("proof", (13+1+eDepth)*32+8)
	err := h.ValidateHeaderAndProof(header, proof)
	if err != nil {
		vsCover("rejects")
		return
	}
	vsCover("accepts")
	var slot uint64
	var bbr [32]byte
	if deneb {
		var bp history.BlockProofHistoricalSummariesDeneb
		vsAssert(bp.UnmarshalSSZ(proof) == nil, "accepted-proof-decodes")
		slot = bp.Slot
		copy(bbr[:], bp.BeaconBlockRoot)
	} else {
		var bp history.BlockProofHistoricalSummariesCapella
		vsAssert(bp.UnmarshalSSZ(proof) == nil, "accepted-proof-decodes")
		slot = bp.Slot
		copy(bbr[:], bp.BeaconBlockRoot)
	}
	vsAssert(slot >= vhCapellaStart, "accepted-slot-not-before-capella")
	idx := (slot - vhCapellaStart) / 8192
	vsAssert(idx < uint64(vhEpochsN()), "accepted-slot-inside-summaries")
	vsAssert(vhCommitted(roots[idx], 8192+slot%8192, 13) == bbr, "beacon-root-committed-at-slot-position")
	vsAssert(vhCommitted(bbr, eIndex, eDepth) == [32]byte(header.Hash()), "header-hash-committed-in-beacon-block")
	vhFullCover("accepts-with-tree")
}

//verif:harness C03.capella_complete unwind=40 timeout=300 noassumecheck
//verif:use sha
//verif:param E=2/3 FULLCOVER=0/1
func vhC03CapellaComplete() { vhC03SummariesComplete(false) }

//verif:harness C03.deneb_complete unwind=40 timeout=300 noassumecheck
//verif:use sha
//verif:param E=2/3 FULLCOVER=0/1
func vhC03DenebComplete() { vhC03SummariesComplete(true) }

func vhC03SummariesComplete(deneb bool) {
	h, roots := vhSummariesValidator()
	n := vsU64("n")
	eDepth, eIndex := 11, uint64(3228)
	if deneb {
		vsAssume(n >= history.CancunNumber)
		eDepth, eIndex = 12, 6444
	} else {
		vsAssume(n >= history.ShanghaiBlockNumber && n < history.CancunNumber)
	}
	header := &types.Header{Number: new(big.Int).SetUint64(n)}
	slot := vsU64("slot")
	vsAssume(slot >= vhCapellaStart && (slot-vhCapellaStart)/8192 < uint64(vhEpochsN()))
	g := 8192 + slot%8192
	root := roots[(slot-vhCapellaStart)/8192]
	bbr := vhCommitted(root, g, 13)
	sibB := vhSiblings(root, g, 13)
	sibE := vhSiblings(bbr, eIndex, eDepth)
	vsAssume([32]byte(header.Hash()) == vhCommitted(bbr, eIndex, eDepth))
	var bbp, ebp [][]byte
	for i := range sibB {
		bbp = append(bbp, sibB[i][:])
	}
	for i := range sibE {
		ebp = append(ebp, sibE[i][:])
	}
	var enc []byte
	var err error
	if deneb {
		enc, err = (&history.BlockProofHistoricalSummariesDeneb{BeaconBlockProof: bbp, BeaconBlockRoot: bbr[:], ExecutionBlockProof: ebp, Slot: slot}).MarshalSSZ()
	} else {
		enc, err = (&history.BlockProofHistoricalSummariesCapella{BeaconBlockProof: bbp, BeaconBlockRoot: bbr[:], ExecutionBlockProof: ebp, Slot: slot}).MarshalSSZ()
	}
	vsAssert(err == nil, "proof-encodes")
	vsAssert(h.ValidateHeaderAndProof(header, enc) == nil, "honest-proof-verifies")
	vsCover("honest")
}

// ---- era dispatch ------------------------------------------------------------------------------

var (
	vhEraPre, vhEraRoots, vhEraCapella, vhEraDeneb = vhNewErr2("pre"), vhNewErr2("roots"), vhNewErr2("capella"), vhNewErr2("deneb")
)

type vhEraErr struct{ s string }

func (e *vhEraErr) Error() string { return e.s }
func vhNewErr2(s string) error    { return &vhEraErr{s} }

func vmEraPre(h HeaderValidator, header *types.Header, proof []byte) error { return vhEraPre }
func vmEraRoots(h HeaderValidator, hash []byte, p *history.BlockProofHistoricalRoots) error {
	return vhEraRoots
}
func vmEraCapella(h HeaderValidator, hash []byte, p *history.BlockProofHistoricalSummariesCapella) error {
	return vhEraCapella
}
func vmEraDeneb(h HeaderValidator, hash []byte, p *history.BlockProofHistoricalSummariesDeneb) error {
	return vhEraDeneb
}

// The block number alone selects the era, at exactly the three fork constants (full 64 bits).
//
//verif:harness C03.era_dispatch unwind=20
//verif:use shauf
//verif:model (github.com/zen-eth/shisui/validation.HeaderValidator).validatePreMergeHeader = vmEraPre
//verif:model (github.com/zen-eth/shisui/validation.HeaderValidator).validateMergeToCapellaHeader = vmEraRoots
//verif:model (github.com/zen-eth/shisui/validation.HeaderValidator).validateCapellaToDenebHeader = vmEraCapella
//verif:model (github.com/zen-eth/shisui/validation.HeaderValidator).validatePostDenebHeader = vmEraDeneb
func vhC03EraDispatch() {
	n := vsU64("n")
	header := &types.Header{Number: new(big.Int).SetUint64(n)}
	// a well-formed proof container of the era's size (contents arbitrary)
	size := []int{15 * 32, (14+1+11)*32 + 8, (13+1+11)*32 + 8, (13+1+12)*32 + 8}[vsChoose("size", 4)]
	proof := vsBytesN("proof", size)
	err := HeaderValidator{}.ValidateHeaderAndProof(header, proof)
	switch {
	case n < 15_537_394:
		vsAssert(err == vhEraPre, "pre-merge-era")
		vsCover("pre")
	case n < 17_034_870:
		vsAssert(err == vhEraRoots || size != (14+1+11)*32+8, "historical-roots-era")
		if err == vhEraRoots {
			vsCover("roots")
		}
	case n < 19_426_587:
		vsAssert(err == vhEraCapella || size != (13+1+11)*32+8, "capella-era")
		if err == vhEraCapella {
			vsCover("capella")
		}
	default:
		vsAssert(err == vhEraDeneb || size != (13+1+12)*32+8, "deneb-era")
		if err == vhEraDeneb {
			vsCover("deneb")
		}
	}
	vsAssert(err != nil, "stubbed-validators-always-answer")
}

var _ = merkle.VerifyMerkleBranch
var _ = hashing.Hash
var _ = capella.HistoricalSummary{}
var _ = common.Root{}
var _ = big.NewInt
var _ = types.Header{}
var _ = history.MergeBlockNumber
